"""Run every stored seeded defect against the check of its property (and optional extra properties) in scratch
worktrees of /repo (VERIF_REPO=<worktree>), 4 at a time, and write seeded/RESULTS.json + seeded/<name>/meta.json.
usage: seed_matrix.py [tier] [name ...]"""
import json, os, subprocess, sys, time
from concurrent.futures import ThreadPoolExecutor

VERIF = os.path.dirname(os.path.dirname(os.path.abspath(__file__)))
SEEDED = os.path.join(VERIF, "seeded")
tier = sys.argv[1] if len(sys.argv) > 1 and sys.argv[1] in ("quick", "thorough") else "quick"
SEEDS = [int(x) for x in os.environ.get("MATRIX_SEEDS", "0").split(",")]
names = [a for a in sys.argv[1:] if a not in ("quick", "thorough")] or sorted(d for d in os.listdir(SEEDED) if os.path.isdir(os.path.join(SEEDED, d)))
EXTRA = {"C01-3": ["C12"], "C10-3": ["C12"], "C07-1": ["C04"], "C17-1": ["C02"], "C17-2": ["C03", "C02"], "C18-1": ["C01"], "C18-3": ["C01"],
         "C02-3": ["C03", "C17"], "C12-1": ["C10"], "C20-3": ["C18"], "C14-3": ["C12"],
         "C01-6": ["C12", "C09"], "C04-6": ["C12", "C09"], "C18-6": ["C12"], "C07-4": ["C12"], "C09-5": ["C12"], "C18-4": ["C03", "C01"],
         "C04-4": ["C07", "C03"], "C07-5": ["C04"], "C13-5": ["C09"], "C10-5": ["C12"], "C01-4": ["C18"],
         "C09-7": ["C12"], "C09-9": ["C12"], "C18-7": ["C12", "C09"], "C04-9": ["C12", "C09"], "C20-8": ["C12"], "C10-7": ["C07"], "C07-9": ["C10"],
         "C07-7": ["C03"], "C19-7": ["C12"], "C01-8": ["C09"], "C18-8": ["C01"], "C13-7": ["C09"], "C10-8": ["C09"],
         "C01-12": ["C12"], "C08-10": ["C12", "C09"], "C18-10": ["C12", "C10"], "C18-11": ["C01", "C17"], "C17-12": ["C01"], "C17-10": ["C03"],
         "C17-11": ["C10"], "C13-12": ["C12", "C09"], "C13-11": ["C09"], "C10-10": ["C12"], "C12-12": ["C10"], "C19-12": ["C09"], "C19-11": ["C09"],
         "C14-11": ["C09", "C12"], "C03-11": ["C01"], "C03-12": ["C02", "C17"], "C07-10": ["C04"], "C07-11": ["C03"], "C02-11": ["C03"],
         "C01-14": ["C03"], "C01-15": ["C12"], "C02-14": ["C03"], "C09-13": ["C12"], "C12-15": ["C09"], "C13-15": ["C12"], "C15-15": ["C12"],
         "C18-13": ["C12"], "C19-13": ["C09", "C12"], "C19-14": ["C03"], "C19-15": ["C09"], "C15-13": ["C12"], "C06-15": ["C12", "C09"],
         "C06-14": ["C12"], "C08-13": ["C12"], "C14-13": ["C12"], "C04-14": ["C01"], "C17-14": ["C03"], "C17-13": ["C02"],
         "C01-18": ["C12", "C13"], "C07-18": ["C04"], "C08-16": ["C09"], "C09-17": ["C14"], "C13-16": ["C14"], "C13-17": ["C09", "C12"],
         "C17-17": ["C16"], "C08-18": ["C01"], "C17-16": ["C01"], "C18-16": ["C01"], "C04-17": ["C09", "C12"], "C06-17": ["C09", "C12"],
         "C01-17": ["C12"], "C10-17": ["C12"], "C18-18": ["C12"],
         "C13-20": ["C14"], "C17-20": ["C01"], "C17-21": ["C07"], "C07-20": ["C04"], "C20-20": ["C12"], "C12-21": ["C01"], "C18-19": ["C02"],
         "C18-20": ["C20", "C13"], "C12-19": ["C15"],
         "C01-23": ["C12"], "C17-24": ["C04"], "C20-23": ["C13"], "C05-22": ["C02"], "C13-24": ["C02"], "C11-24": ["C02"], "C18-22": ["C02"],
         "C01-25": ["C10"], "C09-25": ["C13"], "C09-26": ["C14"], "C11-25": ["C01"], "C11-26": ["C04"], "C11-27": ["C06"], "C13-25": ["C12"],
         "C20-26": ["C12"], "C13-26": ["C07"], "C13-27": ["C15"], "C18-26": ["C02"], "C18-27": ["C12", "C04"], "C18-25": ["C16", "C01"],
         "C04-25": ["C02"], "C19-26": ["C07"], "C01-27": ["C12"], "C12-25": ["C06"],
         "C01-29": ["C03"], "C02-30": ["C03"], "C13-29": ["C03"], "C14-30": ["C03"], "C17-29": ["C02"], "C09-29": ["C14"], "C15-30": ["C16"],
         "C17-30": ["C04"], "C17-28": ["C02"], "C05-29": ["C01"], "C03-29": ["C01"], "C17-27": ["C07"],
         "C01-31": ["C12"], "C01-33": ["C12"], "C03-33": ["C17"], "C08-33": ["C17"], "C06-32": ["C05"], "C13-32": ["C09"], "C13-33": ["C14"],
         "C14-32": ["C12"], "C15-33": ["C17", "C12"], "C17-32": ["C02"], "C17-33": ["C07"], "C18-31": ["C20", "C12"], "C18-32": ["C15"],
         "C18-33": ["C12"], "C12-28": ["C16"], "C12-29": ["C09"],
         "C01-35": ["C09"], "C02-35": ["C09"], "C04-34": ["C09"], "C05-34": ["C09"], "C06-34": ["C09"], "C07-35": ["C09"], "C18-34": ["C09"],
         "C19-35": ["C09"], "C07-34": ["C01"], "C08-35": ["C01"], "C11-35": ["C01"], "C06-35": ["C14"], "C11-34": ["C14"],
         "C10-34": ["C12"], "C10-35": ["C12"], "C18-35": ["C12"], "C05-35": ["C12"], "C04-35": ["C14", "C13"], "C17-35": ["C15"], "C17-34": ["C15"],
         "C12-34": ["C15"], "C12-35": ["C15"], "C08-34": ["C13"], "C03-35": ["C12"], "C13-35": ["C15"], "C20-35": ["C16"]}


def run(name):
    prop = name.split("-")[0]
    wt = "/tmp/wt/seedrun-" + name
    subprocess.run(["git", "-C", "/repo", "worktree", "remove", "--force", wt], capture_output=True)
    r = subprocess.run(["git", "-C", "/repo", "worktree", "add", "-q", "--detach", wt, "HEAD"], capture_output=True, text=True)
    res = {"name": name, "property": prop, "checks": {}}
    try:
        a = subprocess.run(["git", "-C", wt, "apply", os.path.join(SEEDED, name, "patch.diff")], capture_output=True, text=True)
        if a.returncode != 0:
            res["error"] = "patch does not apply: " + a.stderr[-300:]
            return res
        for vseed in SEEDS:
            for q in [prop] + EXTRA.get(name, []):
                env = dict(os.environ, VERIF_REPO=wt, VERIF_NO_EVIDENCE="1", VERIF_JOBS="6", VERIF_SEED=str(vseed), PYTHONHASHSEED="0")
                t0 = time.time()
                p = subprocess.run([os.path.join(VERIF, "check"), q, tier], capture_output=True, text=True, env=env)
                tags = [l.split(":")[1].strip() for l in p.stdout.split("\n") if l.startswith("violation in")]
                if vseed == SEEDS[0] or p.returncode == 1:
                    res["checks"][q] = {"exit": p.returncode, "violation_lines": p.stdout.count("\nVIOLATION") + p.stdout.startswith("VIOLATION"),
                                        "tags": sorted(set(tags))[:8], "wall_s": round(time.time() - t0, 1), "verif_seed": vseed}
            if any(v["exit"] == 1 for v in res["checks"].values()):
                break          # detected; further seeds of the quick tier are only tried for seeds that escaped so far
    finally:
        subprocess.run(["git", "-C", "/repo", "worktree", "remove", "--force", wt], capture_output=True)
    return res


with ThreadPoolExecutor(max_workers=3) as ex:
    results = list(ex.map(run, names))
old = {}
rp = os.path.join(SEEDED, "RESULTS.json")
if os.path.exists(rp):
    old = {r["name"]: r for r in json.load(open(rp))["results"]}
for r in results:
    old[r["name"]] = r
json.dump({"tier": tier, "repo_head": subprocess.run(["git", "-C", "/repo", "rev-parse", "--short", "HEAD"], capture_output=True, text=True).stdout.strip(),
           "results": [old[k] for k in sorted(old)]}, open(rp, "w"), indent=1)
for r in results:
    own = r["checks"].get(r["property"], {})
    print("%-7s own-check exit=%s tags=%s %s" % (r["name"], own.get("exit"), own.get("tags"), {k: v["exit"] for k, v in r["checks"].items() if k != r["property"]} or r.get("error", "")))
