"""Summarise seeded/RESULTS.json: seeds, detected by the check of their own property, by a neighbouring one, not at all."""
import json, os, sys
HERE = os.path.dirname(os.path.dirname(os.path.abspath(__file__)))
res = json.load(open(os.path.join(HERE, "seeded", "RESULTS.json")))["results"]
present = set(d for d in os.listdir(os.path.join(HERE, "seeded")) if os.path.isdir(os.path.join(HERE, "seeded", d)))
own, other, none, err = [], [], [], []
for r in res:
    if r["name"] not in present:
        continue
    if r.get("error"):
        err.append(r["name"])
        continue
    ch = r["checks"]
    if ch.get(r["property"], {}).get("exit") == 1:
        own.append(r["name"])
    elif any(v.get("exit") == 1 for k, v in ch.items() if k != r["property"]):
        other.append((r["name"], [k for k, v in ch.items() if k != r["property"] and v.get("exit") == 1]))
    else:
        none.append(r["name"])
missing = sorted(present - set(r["name"] for r in res))
print("seeds stored: %d; with a result: %d" % (len(present), len(own) + len(other) + len(none) + len(err)))
print("detected by the check of their own property: %d" % len(own))
print("detected only by a neighbouring property: %d  %s" % (len(other), ", ".join("%s (%s)" % (n, "/".join(k)) for n, k in other)))
print("not detected: %d  %s" % (len(none), ", ".join(none)))
print("errors: %s" % err)
print("no result: %s" % missing)
per = {}
for n in present:
    per[n.split("-")[0]] = per.get(n.split("-")[0], 0) + 1
print("per property:", " ".join("%s:%d" % (k, per[k]) for k in sorted(per)))
