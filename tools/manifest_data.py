import json, os
HERE = os.path.dirname(os.path.dirname(os.path.abspath(__file__)))
ALL = [json.loads(l)["id"] for l in open(os.path.join(HERE, "properties.jsonl"))]

def chk(pid, technique, text, note, design):
    return {"property_id": pid, "quick_cmd": "./check %s quick" % pid, "thorough_cmd": "./check %s thorough" % pid,
            "evidence_file": "evidence/%s.json" % pid, "replay_cmd_template": "./check %s --replay {path}" % pid,
            "engine": "hypothesis",
            "level_claimed": {"category": "exploration", "text": text, "design_ref": design},
            "level_note": note, "technique": technique}

BASE_NOTE = ("Trusted base: vp/ref.py (exact Fraction reference, ~350 lines), Python fractions, Hypothesis generators; "
             "tolerances stated in DESIGN.md section 3. Absence of violations means 'held on everything generated', not proof.")

CHECKS = [
 chk("C01", "property-based testing: generated shapes/parameters vs exact Cox-de Boor reference model (differential)",
     "Generated-input search over curve/surface/volume definitions (clamped/unclamped, repeated knots, affine ranges, rational) "
     "and parameters on/off knots; every evaluation entry point compared with an exact rational reference; grid size/order/corners checked.",
     BASE_NOTE, "DESIGN.md 5/C01"),
 chk("C02", "property-based testing: generated shapes/parameters/orders vs exact polynomial derivatives (differential), hodograph and tangent/normal metamorphic relations",
     "Generated-input search; derivatives of every order 0..degree+2 from both evaluator families compared with exact rational "
     "derivatives (series division cross-validated by symbolic quotient rule); hodograph constructors and tangent/normal queries checked against the same reference.",
     BASE_NOTE, "DESIGN.md 5/C02"),
 chk("C03", "property-based testing: span/basis helpers vs reference definition and Cox-de Boor on exact polynomials; exhaustive enumeration of knot generation",
     "Generated knot vectors of every multiplicity pattern and parameter class; identities (partition of unity, derivative sums) and exact values; "
     "knot vector generation enumerated exhaustively over degree 1..7 x 12 sizes x clamped/unclamped; rejection of invalid vectors.",
     BASE_NOTE, "DESIGN.md 5/C03"),
 chk("C04", "property-based testing: metamorphic shape invariance under generated histories of knot insertions vs exact reference; exact knot-vector model",
     "Generated insertion histories on curves/surfaces/volumes through function and method forms; shape compared with the exact reference of the original; knot vector and net size modelled exactly; over-multiplicity rejection leaves the object unchanged.",
     BASE_NOTE, "DESIGN.md 5/C04"),
 chk("C05", "property-based testing: metamorphic shape invariance under refinement + exact expected knot structure",
     "Generated densities/directions and helper-level knot lists; shape compared with exact reference; refined knot vector compared with the exact dyadic subdivision model.",
     BASE_NOTE, "DESIGN.md 5/C05"),
 chk("C06", "property-based testing: stateful insert/remove histories with a ledger model of removable knots; round trip to original control points",
     "Generated histories interleaving insertions (or refinement) and removals of knots removable by construction; shape vs exact reference, knot-vector ledger, control points restored after full removal.",
     BASE_NOTE, "DESIGN.md 5/C06"),
 chk("C07", "property-based testing: pieces of split/decomposition vs exact reference of the input under the affine domain map",
     "Generated split parameters (inside spans, on knots of any multiplicity, knots of the other direction) and decomposition directions; every piece compared with the exact reference of the input on its sub-interval; piece counts, Bezier form, input unchanged, end splits rejected.",
     BASE_NOTE, "DESIGN.md 5/C07"),
]
DONE = set(c["property_id"] for c in CHECKS)
NOT_APPLICABLE = [{"property_id": p, "reason": "check not built yet in this revision (work in progress; PBT applies, see DESIGN.md section 5)"}
                  for p in ALL if p not in DONE]
NOTES = "Property-based testing / fuzzing family only. See DESIGN.md. known_findings.json lists genuine defects (fixed or recorded)."
