import json, os
HERE = os.path.dirname(os.path.dirname(os.path.abspath(__file__)))
ALL = [json.loads(l)["id"] for l in open(os.path.join(HERE, "properties.jsonl"))]

def chk(pid, technique, text, note, design):
    return {"property_id": pid, "quick_cmd": "./check %s quick" % pid, "thorough_cmd": "./check %s thorough" % pid,
            "evidence_file": "evidence/%s.json" % pid, "replay_cmd_template": "./check %s --replay {path}" % pid,
            "engine": "hypothesis",
            "level_claimed": {"category": "exploration", "text": text, "design_ref": design},
            "level_note": note, "technique": technique}

BASE_NOTE = ("Trusted base: vp/ref.py (exact Fraction reference, ~350 lines), Python fractions, Hypothesis generators; "
             "tolerances stated in DESIGN.md section 3. Absence of violations means 'held on everything generated', not proof.")

CHECKS = [
 chk("C01", "property-based testing: generated shapes/parameters vs exact Cox-de Boor reference model (differential)",
     "Generated-input search over curve/surface/volume definitions (clamped/unclamped, repeated knots, affine ranges, rational) "
     "and parameters on/off knots; every evaluation entry point compared with an exact rational reference; grid size/order/corners checked.",
     BASE_NOTE, "DESIGN.md 5/C01"),
]
DONE = set(c["property_id"] for c in CHECKS)
NOT_APPLICABLE = [{"property_id": p, "reason": "check not built yet in this revision (work in progress; PBT applies, see DESIGN.md section 5)"}
                  for p in ALL if p not in DONE]
NOTES = "Property-based testing / fuzzing family only. See DESIGN.md. known_findings.json lists genuine defects (fixed or recorded)."
