import json, os
HERE = os.path.dirname(os.path.dirname(os.path.abspath(__file__)))
ALL = [json.loads(l)["id"] for l in open(os.path.join(HERE, "properties.jsonl"))]

def chk(pid, technique, text, note, design):
    return {"property_id": pid, "quick_cmd": "./check %s quick" % pid, "thorough_cmd": "./check %s thorough" % pid,
            "evidence_file": "evidence/%s.json" % pid, "replay_cmd_template": "./check %s --replay {path}" % pid,
            "engine": "hypothesis",
            "level_claimed": {"category": "exploration", "text": text, "design_ref": design},
            "level_note": note, "technique": technique}

BASE_NOTE = ("Trusted base: vp/ref.py (exact Fraction reference, ~350 lines), Python fractions, Hypothesis generators; "
             "tolerances stated in DESIGN.md section 3. Absence of violations means 'held on everything generated', not proof.")

CHECKS_UNSORTED = [
 chk("C01", "property-based testing: generated shapes/parameters vs exact Cox-de Boor reference model (differential)",
     "Generated-input search over curve/surface/volume definitions (clamped/unclamped, repeated knots, affine ranges, rational) "
     "and parameters on/off knots; every evaluation entry point compared with an exact rational reference; grid size/order/corners checked.",
     BASE_NOTE, "DESIGN.md 5/C01"),
 chk("C02", "property-based testing: generated shapes/parameters/orders vs exact polynomial derivatives (differential), hodograph and tangent/normal metamorphic relations",
     "Generated-input search; derivatives of every order 0..degree+2 from both evaluator families compared with exact rational "
     "derivatives (series division cross-validated by symbolic quotient rule); hodograph constructors and tangent/normal queries checked against the same reference.",
     BASE_NOTE, "DESIGN.md 5/C02"),
 chk("C03", "property-based testing: span/basis helpers vs reference definition and Cox-de Boor on exact polynomials; exhaustive enumeration of knot generation",
     "Generated knot vectors of every multiplicity pattern and parameter class; identities (partition of unity, derivative sums) and exact values; "
     "knot vector generation enumerated exhaustively over degree 1..7 x 12 sizes x clamped/unclamped; rejection of invalid vectors.",
     BASE_NOTE, "DESIGN.md 5/C03"),
 chk("C04", "property-based testing: metamorphic shape invariance under generated histories of knot insertions vs exact reference; exact knot-vector model",
     "Generated insertion histories on curves/surfaces/volumes through function and method forms; shape compared with the exact reference of the original; knot vector and net size modelled exactly; over-multiplicity rejection leaves the object unchanged.",
     BASE_NOTE, "DESIGN.md 5/C04"),
 chk("C05", "property-based testing: metamorphic shape invariance under refinement + exact expected knot structure",
     "Generated densities/directions and helper-level knot lists; shape compared with exact reference; refined knot vector compared with the exact dyadic subdivision model.",
     BASE_NOTE, "DESIGN.md 5/C05"),
 chk("C06", "property-based testing: stateful insert/remove histories with a ledger model of removable knots; round trip to original control points",
     "Generated histories interleaving insertions (or refinement) and removals of knots removable by construction; shape vs exact reference, knot-vector ledger, control points restored after full removal.",
     BASE_NOTE, "DESIGN.md 5/C06"),
 chk("C07", "property-based testing: pieces of split/decomposition vs exact reference of the input under the affine domain map",
     "Generated split parameters (inside spans, on knots of any multiplicity, knots of the other direction) and decomposition directions; every piece compared with the exact reference of the input on its sub-interval; piece counts, Bezier form, input unchanged, end splits rejected.",
     BASE_NOTE, "DESIGN.md 5/C07"),
 chk("C08", "property-based testing: Bezier polygons vs exact Bernstein/power-basis reference; elevation-reduction round trip",
     "Generated Bezier polygons (points, homogeneous points, rows of points) of degree 1..8; elevated control points compared with the exact closed form and as polynomial curves; reduction applied to exact elevations must return the original; non-Bezier input and non-positive counts rejected.",
     BASE_NOTE, "DESIGN.md 5/C08"),
 chk("C09", "property-based testing: stateful setter/reader histories against a (points, weights) model; round trips of helper conversions; exhaustive grid enumeration",
     "Generated histories of ctrlpts/weights/ctrlptsw setters and reads on NURBS curves/surfaces/volumes against a model; helper conversions mutually inverse; weighted grids enumerated exhaustively for sizes 1..6; conversions and uniform weight scaling leave evaluation unchanged.",
     BASE_NOTE, "DESIGN.md 5/C09"),
 chk("C10", "property-based testing: transform histories (copies and in-place) vs the composed map applied to exact reference points",
     "Generated sequences of translate/rotate/scale on shapes and containers, mixing copies, in-place updates and view reads; every tracked object must evaluate to the recorded composition of maps applied to the exact original points; inputs untouched without inplace.",
     BASE_NOTE + " Rotation about y is accepted in either handedness.", "DESIGN.md 5/C10"),
 chk("C11", "property-based testing: fitting results vs independently recomputed parameters, interpolation conditions and least-squares normal equations",
     "Generated data sets with bounded chord ratios; interpolation through every data point at independently recomputed chord/centripetal parameters; approximation end/corner interpolation and normal equations, cross-checked with numpy lstsq when well conditioned.",
     BASE_NOTE, "DESIGN.md 5/C11"),
 chk("C13", "property-based testing: layout model v + nv*(u + nu*w) vs every module addressing control points; extract/construct round trips",
     "Generated surfaces/volumes with pairwise different sizes and distinct points; 2-D view, managers, flips, transpose, flip, extraction, construction, iso-surfaces and sweeping compared with the documented flat index model and the exact reference.",
     BASE_NOTE, "DESIGN.md 5/C13"),
 chk("C16", "property-based testing: linear algebra results vs exact rational arithmetic with LU backward-error bounds; call histories sharing memoised state",
     "Generated non-singular (P*L*U), diagonally dominant, swap-needing and collocation matrices up to 8x8; every returned solution/inverse/determinant checked against exact rational arithmetic; pivot output must be a permutation with P*M; histories of calls; helpers vs Fractions.",
     BASE_NOTE + " One known finding (unpivoted lu_solve) is excluded by an exact class predicate.", "DESIGN.md 5/C16"),
 chk("C18", "property-based testing: separating-hyperplane test of evaluated points against the active control points; bounding box and length bounds",
     "Generated shapes, parameters and directions; projections of evaluated points lie within those of the (degree+1)^dim active control points (own span arithmetic and find_ctrlpts); sampled points inside bbox; chord <= length <= polygon.",
     BASE_NOTE, "DESIGN.md 5/C18"),
 chk("C19", "property-based testing: pairs differing in exactly one component (or none) vs equivalence-relation laws",
     "Generated pairs of shapes that are copies, identical rebuilds, or differ in exactly one coordinate / weight / knot / degree / size / kind / rationality; reflexive, symmetric, != negation, copies equal, single changes unequal.",
     BASE_NOTE + " The tolerance value is not pinned (changes >= 1e-5).", "DESIGN.md 5/C19"),
 chk("C20", "property-based testing: rays, winding number, hull, orientation, voxels and control-point lookup vs exact rational arithmetic",
     "Ray pairs constructed as crossing / parallel / coincident / skew; polygons and point sets on an integer grid vs exact winding number and monotone-chain hull; voxel fill flags vs sampled points with a 1e-6 ambiguity band; lookup vs exact active sets.",
     BASE_NOTE, "DESIGN.md 5/C20"),
 chk("C12", "property-based testing: stateful histories of mutators and view reads vs a freshly built object with the same stored definition (model-based differential)",
     "Generated histories (20 mutators incl. insertion/removal/refinement, reverse, transpose, flip, in-place transforms, redefinition, deep copy + edit) interleaved with reads of 9 derived views on curves/surfaces/volumes, and container histories (add, density, element edits, copies); every selected view must equal the view of a fresh object built from the current stored definition.",
     BASE_NOTE + " One known finding (container caches vs element edits) is excluded by a history-class predicate.", "DESIGN.md 5/C12"),
 chk("C14", "property-based testing: export/import round trips (JSON, smesh/vmesh, txt, csv, compatibility files) with independent file readers",
     "Generated shapes and containers with pairwise different sizes, deltas and trims; imported definitions equal exported ones and evaluate identically; mesh/text file bodies parsed independently to assert the documented row/column layout.",
     BASE_NOTE, "DESIGN.md 5/C14"),
 chk("C15", "property-based testing: combinatorial mesh validity, vertices vs exact reference surface, trimmed coverage vs exact winding number, exported files vs independent parsers",
     "Generated surfaces (any domain), sample sizes and vertex spacings; ids, edge incidence, Euler characteristic, orientation, uv-area; quad meshes; trimmed meshes compared with the trimmed region away from its boundary; OBJ/OFF/STL (ascii, binary) re-parsed and matched triangle by triangle.",
     BASE_NOTE, "DESIGN.md 5/C15"),
 chk("C17", "property-based testing: configuration differentials (span function, evaluator, normalize_kv, num_procs, cache size in fresh interpreters)",
     "One generated geometry + query per case evaluated under several configurations; results must agree (1e-9 relative for equivalent arithmetic, exactly for num_procs and cache size); no configuration may make a valid call fail.",
     BASE_NOTE + " Pool scheduling is not controlled; only results are compared.", "DESIGN.md 5/C17"),
]
CHECKS = sorted(CHECKS_UNSORTED, key=lambda c: c["property_id"])
FUZZED = ["C03", "C05", "C06", "C16", "C20"]
for c in CHECKS:
    if c["property_id"] in FUZZED:
        c["engine"] = "hypothesis (+ atheris/libFuzzer in the thorough tier)"
        c["technique"] += "; thorough tier adds coverage-guided fuzzing (atheris) of the same strategies and oracle"
        c["level_note"] += " If atheris cannot be imported the coverage-guided part is skipped and reported as inconclusive, never as a violation."

DONE = set(c["property_id"] for c in CHECKS)
NOT_APPLICABLE = [{"property_id": p, "reason": "check not built yet in this revision (work in progress; PBT applies, see DESIGN.md section 5)"}
                  for p in ALL if p not in DONE]
NOTES = "Property-based testing / fuzzing family only. See DESIGN.md. known_findings.json lists genuine defects (fixed or recorded)."
