"""Maintain known_findings.json and corpus/ by hand-run commands (never at check run time).
usage: kf.py fixed <PID> <slug> <replay.json> <commit> "<what>"    -> corpus/<PID>/<slug>.json + fixed entry
       kf.py known <PID> <slug> <replay.json> "<where>" "<class>" "<what>"
       kf.py corpus <PID> <name> <replay.json>
"""
import json, os, sys
HERE = os.path.dirname(os.path.dirname(os.path.abspath(__file__)))
KF = os.path.join(HERE, "known_findings.json")
def load():
    return json.load(open(KF))
def save(d):
    json.dump(d, open(KF, "w"), indent=1)
def corpus(pid, name, rp):
    r = json.load(open(rp))
    os.makedirs(os.path.join(HERE, "corpus", pid), exist_ok=True)
    out = os.path.join(HERE, "corpus", pid, name + ".json")
    json.dump({"property": pid, "subcheck": r["subcheck"], "tag": r.get("tag"), "msg": r.get("msg"), "case": r["case"]}, open(out, "w"), indent=1)
    return r
cmd = sys.argv[1]
if cmd == "corpus":
    corpus(sys.argv[2], sys.argv[3], sys.argv[4])
elif cmd == "fixed":
    pid, slug, rp, commit, what = sys.argv[2:7]
    r = corpus(pid, slug, rp)
    d = load()
    d["findings"] = [e for e in d["findings"] if e["slug"] != slug]
    d["findings"].append({"status": "fixed", "property": pid, "slug": slug, "subcheck": r["subcheck"], "commit": commit,
                          "what": what, "tag": r.get("tag"), "witness": "corpus/%s/%s.json" % (pid, slug),
                          "line": "fixed: property=%s %s %s" % (pid, commit, what)})
    save(d)
elif cmd == "known":
    pid, slug, rp, where, cls, what = sys.argv[2:8]
    r = json.load(open(rp))
    d = load()
    d["findings"] = [e for e in d["findings"] if e["slug"] != slug]
    d["findings"].append({"status": "known", "property": pid, "slug": slug, "subcheck": r["subcheck"], "where": where,
                          "class": cls, "what": what, "tag": r.get("tag"), "witness": r["case"]})
    save(d)
