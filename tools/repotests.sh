#!/bin/sh
# Runs the repository's pinned test suite (BASELINE.json command, without junit output); prints the summary line.
cd "${1:-/repo}" && /venv/bin/python -m pytest -q -p no:cacheprovider --timeout=900 --continue-on-collection-errors 2>&1 | tail -3
