"""Validate MANIFEST.json and evidence/*.json against the schemas (run with python3-vt, which has jsonschema)."""
import glob, json, sys
import jsonschema
ok = True
def v(path, schema):
    global ok
    try:
        jsonschema.validate(json.load(open(path)), json.load(open(schema)))
        print("ok  ", path)
    except Exception as e:
        ok = False
        print("FAIL", path, str(e)[:500])
v("/verif/MANIFEST.json", "/root/.vp/MANIFEST.schema.json")
for p in sorted(glob.glob("/verif/evidence/*.json")):
    v(p, "/root/.vp/EVIDENCE.schema.json")
sys.exit(0 if ok else 1)
