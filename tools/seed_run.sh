#!/bin/sh
# usage: seed_run.sh <seeded-dir-name> [tier] [PROP...]  - applies a stored seeded defect to /repo, runs the check(s), reverts.
S=$1; TIER=${2:-quick}; shift; [ $# -gt 0 ] && shift
D=/verif/seeded/$S
P=$(echo $S | cut -d- -f1)
PROPS="${*:-$P}"
cd /repo && git diff --quiet || { echo "/repo dirty"; exit 2; }
git apply $D/patch.diff || { echo "patch does not apply"; exit 2; }
cd /verif
for Q in $PROPS; do
  VERIF_NO_EVIDENCE=1 ./check $Q $TIER > /tmp/wt/seedrun-$S-$Q.log 2>&1; RC=$?
  echo "SEED $S check $Q $TIER -> exit $RC: $(grep -c '^VIOLATION' /tmp/wt/seedrun-$S-$Q.log) violation line(s); $(grep '^violation in' /tmp/wt/seedrun-$S-$Q.log | head -2 | cut -c1-220)"
done
git -C /repo checkout -q -- . 
git -C /repo status --short | head -3
