"""Print a markdown table of all sub-checks as built (for DESIGN.md section 5.1)."""
import importlib, os, sys
sys.path.insert(0, os.path.dirname(os.path.dirname(os.path.abspath(__file__))))
sys.path.insert(0, os.environ.get("VERIF_REPO", "/repo"))
print("| Prop | sub-check | cases quick (shards x n) | cases thorough | non-triviality rule |")
print("|------|-----------|--------------------------|----------------|---------------------|")
for i in range(1, 21):
    pid = "C%02d" % i
    m = importlib.import_module("vp.props." + pid)
    fz = {a: (b, c) for a, b, c in getattr(m, "FUZZ", [])}
    for sc in m.SUBCHECKS:
        if sc.enumerate_cases is not None:
            q = t = "exhaustive (%d)" % len(sc.enumerate_cases("quick"))
        else:
            q = "%d x %d" % (sc.shards_quick, sc.quick)
            t = "%d x %d" % (sc.shards_thorough, sc.thorough)
        if sc.name in fz:
            t += " + atheris %d x %d runs" % (fz[sc.name][1], fz[sc.name][0])
        print("| %s | %s | %s | %s | %s |" % (pid, sc.name, q, t, sc.rule.replace("|", "/")))
