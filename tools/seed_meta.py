"""(Re)generate seeded/<name>/meta.json from notes.md, patch.diff and seeded/RESULTS.json."""
import json, os, re
S = os.path.join(os.path.dirname(os.path.dirname(os.path.abspath(__file__))), "seeded")
res = {r["name"]: r for r in json.load(open(os.path.join(S, "RESULTS.json")))["results"]}
props = {}
for l in open(os.path.join(os.path.dirname(S), "properties.jsonl")):
    d = json.loads(l)
    props[d["id"]] = d["title"]
n = det = own = 0
for name in sorted(os.listdir(S)):
    p = os.path.join(S, name)
    if not os.path.isdir(p):
        continue
    notes = open(os.path.join(p, "notes.md")).read() if os.path.exists(os.path.join(p, "notes.md")) else ""
    files = sorted(set(re.findall(r"^\+\+\+ b/(\S+)", open(os.path.join(p, "patch.diff")).read(), re.M)))
    r = res.get(name, {})
    pid = name.split("-")[0]
    k = int(name.split("-")[1])
    meta = {
        "seed": name, "breaks_property": pid, "property_title": props[pid],
        "round": ("1-2" if k <= 3 else "3-5") if k <= 9 else 6 + (k - 10) // 3,
        "origin": "independent sub-agent working only from the property text in its own scratch git worktree of /repo (no access to /verif)",
        "files_changed": files,
        "needs_to_manifest": notes.strip()[:1500],
        "confirmed_by_me": {
            "how": "tools/seed_verify.sh: fresh scratch worktree of /repo HEAD, git apply patch.diff, repository test suite, demo.py with and without the patch",
            "test_suite_with_patch": "222 passed, 1 error (identical to the unmodified tree)",
            "demo_with_patch": "exit != 0 (see demo_output_with_patch.txt)", "demo_without_patch": "exit 0"},
        "checks_run": {"how": "tools/seed_matrix.py quick: patch applied in a scratch worktree of /repo, ./check <ID> quick with VERIF_REPO=<worktree> "
                              "(equivalent to tools/seed_run.sh: git -C /repo apply, ./check, git -C /repo checkout -- .)",
                       "results": r.get("checks", {})},
        "detected_by_own_property_check": r.get("checks", {}).get(pid, {}).get("exit") == 1,
        "detected": any(v.get("exit") == 1 for v in r.get("checks", {}).values()),
    }
    json.dump(meta, open(os.path.join(p, "meta.json"), "w"), indent=1)
    n += 1
    det += meta["detected"]
    own += meta["detected_by_own_property_check"]
print("%d seeds, %d detected by some check, %d by the check of their own property" % (n, det, own))
