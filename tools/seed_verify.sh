#!/bin/sh
# usage: seed_verify.sh <Cxx> <k>   - verifies a sub-agent's seeded defect in a scratch worktree and stores it under /verif/seeded/
# Confirms: patch applies to /repo HEAD, test suite still "222 passed", demo fails with the patch and passes without.
P=$1; K=$2; SRC=${SEED_SRC:-/tmp/wt/$P}/SEED/$K; WT=/tmp/wt/verify-$P-$K
[ -f $SRC/patch.diff ] || { echo "no patch $SRC"; exit 2; }
git -C /repo worktree add -q --detach $WT HEAD || exit 2
cd $WT
RES="ok"
git apply $SRC/patch.diff || RES="patch-does-not-apply"
if [ "$RES" = ok ]; then
  T=$(/venv/bin/python -m pytest -q -p no:cacheprovider --continue-on-collection-errors tests 2>&1 | tail -1)
  echo "tests with patch: $T"
  echo "$T" | grep -q "222 passed, 1 error" || RES="tests-changed"
  PYTHONPATH=$WT timeout 120 /venv/bin/python $SRC/demo.py > /tmp/wt/demo_with-$P-$K.out 2>&1; RC1=$?
  git checkout -q -- . 
  PYTHONPATH=$WT timeout 120 /venv/bin/python $SRC/demo.py > /tmp/wt/demo_without-$P-$K.out 2>&1; RC0=$?
  echo "demo rc with patch=$RC1 without=$RC0"
  [ $RC1 -ne 0 ] || RES="demo-passes-with-patch"
  [ $RC0 -eq 0 ] || RES="demo-fails-without-patch"
fi
cd /; git -C /repo worktree remove --force $WT
echo "RESULT $P/$K: $RES"
if [ "$RES" = ok ]; then
  D=/verif/seeded/$P-$K; mkdir -p $D
  cp $SRC/patch.diff $SRC/demo.py $D/; cp $SRC/notes.md $D/notes.md 2>/dev/null
  tail -3 /tmp/wt/demo_with-$P-$K.out > $D/demo_output_with_patch.txt
fi
