"""Regenerate MANIFEST.json from tools/manifest_data.py (keeps it valid at all times)."""
import json, os, sys
sys.path.insert(0, os.path.dirname(os.path.dirname(os.path.abspath(__file__))))
from tools.manifest_data import CHECKS, NOT_APPLICABLE, NOTES
baseline = "cd /repo && /venv/bin/python -m pytest -ra -q -p no:cacheprovider --timeout=900 --continue-on-collection-errors"
m = {
  "version": 1,
  "setup_cmd": "./setup.sh",
  "hooks": {"guard": "GEOMDL_VERIF", "enable": "none: every property is observed through the public API; no source hooks exist",
            "baseline_off_cmd": baseline, "source_commits": [], "add_only": True},
  "engines": [{"name": "hypothesis", "path": "vp/", "serves_properties": [c["property_id"] for c in CHECKS],
               "kind_free_text": "Hypothesis 6.168 generators + exact rational reference model (vp/ref.py); plain-function oracles replayable without Hypothesis"},
              {"name": "atheris", "path": "vp/fuzz.py", "serves_properties": ["C03", "C05", "C06", "C16", "C20"],
               "kind_free_text": "atheris 3.1 (libFuzzer) with geomdl instrumented; mutates the byte stream feeding the sub-check's Hypothesis strategy (fuzz_one_input); same semantic oracle; thorough tier only"}],
  "checks": CHECKS,
  "not_applicable": NOT_APPLICABLE,
  "notes": NOTES,
}
json.dump(m, open(os.path.join(os.path.dirname(os.path.dirname(os.path.abspath(__file__))), "MANIFEST.json"), "w"), indent=1)
print("wrote MANIFEST.json with", len(CHECKS), "checks,", len(NOT_APPLICABLE), "not applicable")
