"""Development aid: merge the line coverage dumps written by workers run with VERIF_COVERAGE=<prefix> and list the executable
lines of geomdl that no check executed.   usage: coverage_report.py <prefix> [module.py ...]"""
import glob, json, os, sys
prefix = sys.argv[1]
only = sys.argv[2:]
root = os.path.join(os.environ.get("VERIF_REPO", "/repo"), "geomdl")
hit = set()
for fn in glob.glob(prefix + ".*.json"):
    for f, l in json.load(open(fn)):
        hit.add((f, l))


def exec_lines(path):
    src = open(path).read()
    code = compile(src, path, "exec")
    out = set()
    stack = [code]
    while stack:
        c = stack.pop()
        for _, _, ln in c.co_lines():
            if ln:
                out.add(ln)
        for k in c.co_consts:
            if hasattr(k, "co_lines"):
                stack.append(k)
    return out, src.split("\n")


tot = cov = 0
for name in sorted(os.listdir(root)):
    if not name.endswith(".py") or (only and name not in only):
        continue
    lines, src = exec_lines(os.path.join(root, name))
    got = {l for f, l in hit if f == name}
    miss = sorted(lines - got)
    tot += len(lines)
    cov += len(lines & got)
    print("%-22s %4d/%4d executable lines hit" % (name, len(lines & got), len(lines)))
    if only:
        for l in miss:
            print("   %5d  %s" % (l, src[l - 1].rstrip()[:140]))
print("total %d/%d" % (cov, tot))
