"""Core types shared by the runner, the worker and the property modules.

A *sub-check* is a plain function ``check(case, ctx)`` over a JSON-serialisable
``case`` plus a Hypothesis strategy that generates such cases.  The function
raises :class:`Violation` when the property is broken on that case; it never
touches Hypothesis, so a saved case replays without it.
"""
import hashlib
import json
import os


class Violation(Exception):
    """The property under test is violated on this case."""

    def __init__(self, tag, msg="", **details):
        super(Violation, self).__init__("%s: %s" % (tag, msg))
        self.tag = tag
        self.msg = msg
        self.details = details


class Skip(Exception):
    """Case is outside the property's domain for a stated reason (counted, never asserted)."""

    def __init__(self, reason):
        super(Skip, self).__init__(reason)
        self.reason = reason


class Excluded(Exception):
    """Case lies in the class of a *known finding* that is still present (counted, skipped)."""

    def __init__(self, slug):
        super(Excluded, self).__init__(slug)
        self.slug = slug


class Ctx(object):
    """Per-case context handed to a check function."""

    def __init__(self, tier="quick", active_known=(), ignore_tags=()):
        self.tier = tier
        self.active_known = set(active_known)
        self.ignore_tags = set(ignore_tags)
        self.labels = []
        self.nontrivial = False
        self.notes = {}

    # -- classification ---------------------------------------------------
    def label(self, name, cond=True):
        if cond:
            self.labels.append(name)
        return cond

    def nt(self, cond=True, name=None):
        """Mark the case non-trivial (by the sub-check's stated rule)."""
        if cond:
            self.nontrivial = True
            if name:
                self.labels.append("nt:" + name)
        return cond

    # -- known findings -----------------------------------------------------
    def known(self, slug):
        """True when the known finding ``slug`` is still present on this tree and
        therefore its class must be excluded from the search."""
        return slug in self.active_known

    def exclude_if(self, slug, in_class):
        if in_class and slug in self.active_known:
            raise Excluded(slug)

    # -- assertion helpers --------------------------------------------------
    def fail(self, tag, msg="", **details):
        if tag in self.ignore_tags:
            return
        raise Violation(tag, msg, **details)

    def check(self, cond, tag, msg="", **details):
        if not cond:
            self.fail(tag, msg, **details)


class SubCheck(object):
    """name, strategy(tier) -> Hypothesis strategy, check(case, ctx), budgets per shard."""

    def __init__(self, name, strategy, check, quick=300, thorough=3000,
                 shards_quick=1, shards_thorough=16, rule="", doc="", enumerate_cases=None):
        self.name = name
        self.strategy = strategy
        self.check = check
        self.quick = quick
        self.thorough = thorough
        self.shards_quick = shards_quick
        self.shards_thorough = shards_thorough
        self.rule = rule
        self.doc = doc
        # optional: function(tier) -> list of cases for a finite exhaustive enumeration
        self.enumerate_cases = enumerate_cases


def canon(case):
    return json.dumps(case, sort_keys=True, separators=(",", ":"))


def case_hash(case):
    return hashlib.sha256(canon(case).encode()).hexdigest()[:16]


def derive_seed(seed, subcheck, shard):
    h = hashlib.sha256(("%s/%s/%s" % (seed, subcheck, shard)).encode()).hexdigest()
    return int(h[:15], 16)


def repo_root():
    return os.environ.get("VERIF_REPO", "/repo")


def verif_root():
    return os.path.dirname(os.path.dirname(os.path.abspath(__file__)))


def clear_library_caches():
    """Clear every functools.lru_cache in geomdl so a case is a pure function of itself."""
    import geomdl.helpers as h
    import geomdl.linalg as la
    for mod in (h, la):
        for name in dir(mod):
            f = getattr(mod, name)
            cc = getattr(f, "cache_clear", None)
            if callable(cc):
                try:
                    cc()
                except Exception:
                    pass


def load_prop(pid):
    import importlib
    return importlib.import_module("vp.props." + pid)
