"""One (sub-check, shard) per OS process.  Writes a JSON result file; never prints VIOLATION itself.

usage: python -m vp.worker <PID> search <subcheck> <tier> <shard> <nshards> <seed> <out.json> <known,slugs|->
       python -m vp.worker <PID> pre <tier> <out.json>        (corpus replay + known-finding witnesses)
"""
import json
import os
import signal
import threading
import sys
import time
import traceback

from vp import core
from vp.core import Violation, Skip, Excluded, Ctx

MAX_ROOT_CAUSES = 4


def _lib_frame(tb, root):
    """Innermost traceback frame that lies in the code under test, or None."""
    hit = None
    for fr in traceback.extract_tb(tb):
        fn = os.path.abspath(fr.filename)
        if fn.startswith(os.path.join(root, "geomdl")):
            hit = fr
    return hit


class NoReturn(BaseException):
    """Raised by the CPU-time guard (not an Exception, so that no ``except Exception`` in the library swallows it)."""


class AbortSearch(BaseException):
    """Leaves the Hypothesis engine at once (no shrinking) after a call that did not return."""


# CPU seconds (user time of this process, so machine load does not count) one case may use before the call is declared
# not to return; ordinary cases take milliseconds, the slowest ones about a second.
CASE_CPU_LIMIT = float(os.environ.get("VERIF_CASE_CPU_S", "60"))


def _cpu_alarm(signum, frame):
    raise NoReturn()


def run_case(sc, case, ctx):
    """Run one case. Returns outcome string; raises Violation for property failures
    and lets harness errors propagate as HarnessError."""
    core.clear_library_caches()
    guard = CASE_CPU_LIMIT > 0 and hasattr(signal, "setitimer") and threading.current_thread() is threading.main_thread()
    if guard:
        old = signal.signal(signal.SIGVTALRM, _cpu_alarm)
        signal.setitimer(signal.ITIMER_VIRTUAL, CASE_CPU_LIMIT)
    try:
        return _run_case(sc, case, ctx)
    except NoReturn:
        fr = _lib_frame(sys.exc_info()[2], os.path.abspath(core.repo_root()))
        where = "%s:%s" % (os.path.basename(fr.filename), fr.name) if fr is not None else "?"
        raise Violation("no-return@" + where, "in-domain call did not return within %g s of CPU time (last library frame %s line %s); "
                        "ordinary cases take milliseconds" % (CASE_CPU_LIMIT, where, fr.lineno if fr is not None else "?"))
    finally:
        if guard:
            signal.setitimer(signal.ITIMER_VIRTUAL, 0)
            signal.signal(signal.SIGVTALRM, old)


def _run_case(sc, case, ctx):
    try:
        sc.check(case, ctx)
        return "ok"
    except (Violation, Skip, Excluded):
        raise
    except RecursionError:
        raise
    except Exception as e:  # noqa
        fr = _lib_frame(sys.exc_info()[2], os.path.abspath(core.repo_root()))
        if fr is None:
            raise HarnessError("%s: %s\n%s" % (type(e).__name__, e, traceback.format_exc()))
        tag = "exception:%s@%s:%s" % (type(e).__name__, os.path.basename(fr.filename), fr.name)
        if tag in ctx.ignore_tags:
            raise Skip("ignored " + tag)
        raise Violation(tag, "in-domain call raised %s: %s" % (type(e).__name__, e),
                        line=fr.lineno)


class HarnessError(Exception):
    pass


class Stats(object):
    def __init__(self):
        self.evaluations = 0
        self.ok = 0
        self.skipped = {}
        self.excluded = {}
        self.labels = {}
        self.nt_hashes = set()
        self.samples = []
        self.budget_skipped = 0
        self.recent = []          # the last cases executed in this process (for history-dependent failures)

    def record(self, case, ctx, outcome):
        self.evaluations += 1
        self.recent.append(case)
        if len(self.recent) > 40:
            self.recent.pop(0)
        if outcome == "ok":
            self.ok += 1
        for l in set(ctx.labels):
            self.labels[l] = self.labels.get(l, 0) + 1
            if l.startswith("excluded:"):
                # a case that was checked except for the part lying in a known-finding class
                self.excluded[l[9:]] = self.excluded.get(l[9:], 0) + 1
        if ctx.nontrivial and outcome in ("ok", "violation"):
            h = core.case_hash(case)
            if h not in self.nt_hashes:
                self.nt_hashes.add(h)
                if len(self.samples) < 3:
                    self.samples.append(case)


def search(pid, subname, tier, shard, nshards, seed, out, known):
    import hypothesis
    from hypothesis import given, settings, HealthCheck, Phase, Verbosity
    mod = core.load_prop(pid)
    sc = [s for s in mod.SUBCHECKS if s.name == subname][0]
    stats = Stats()
    violations = []
    ignore = set()
    t0 = time.time()
    budget = float(os.environ.get("VERIF_BUDGET_S", "0") or 0)
    harness_error = None
    exhaustive = False

    def one(case, state):
        if budget and time.time() - t0 > budget:
            stats.budget_skipped += 1
            return
        ctx = Ctx(tier=tier, active_known=known, ignore_tags=ignore)
        try:
            run_case(sc, case, ctx)
            stats.record(case, ctx, "ok")
        except Skip as s:
            stats.record(case, ctx, "skip")
            stats.skipped[s.reason] = stats.skipped.get(s.reason, 0) + 1
        except Excluded as x:
            stats.record(case, ctx, "excluded")
            stats.excluded[x.slug] = stats.excluded.get(x.slug, 0) + 1
        except Violation as v:
            stats.record(case, ctx, "violation")
            state["last"] = (case, v)
            state["history"] = list(stats.recent)
            if v.tag.startswith("no-return@") or v.tag.startswith("exception:MemoryError@"):
                raise AbortSearch()          # shrinking a call that never returns / exhausts memory would cost the limit per attempt
            raise

    if sc.enumerate_cases is not None:
        cases = sc.enumerate_cases(tier)
        exhaustive = True
        for i, case in enumerate(cases):
            if i % nshards != shard:
                continue
            state = {}
            try:
                one(case, state)
            except (Violation, AbortSearch) as v:
                if isinstance(v, AbortSearch):
                    v = state["last"][1]
                if len(violations) < MAX_ROOT_CAUSES and v.tag not in [x["tag"] for x in violations]:
                    violations.append({"tag": v.tag, "msg": v.msg, "details": _js(v.details), "case": case})
                if v.tag.startswith("no-return@") or v.tag.startswith("exception:MemoryError@"):
                    break
            except HarnessError as e:
                harness_error = str(e)
                break
    else:
        n = sc.quick if tier == "quick" else sc.thorough
        for attempt in range(MAX_ROOT_CAUSES):
            state = {}
            strat = sc.strategy(tier)

            @hypothesis.seed(core.derive_seed(seed, "%s/%s" % (pid, subname), shard) + attempt)
            @settings(max_examples=n, database=None, deadline=None, derandomize=False,
                      report_multiple_bugs=False, verbosity=Verbosity.quiet,
                      suppress_health_check=[HealthCheck.too_slow, HealthCheck.data_too_large,
                                             HealthCheck.large_base_example],
                      phases=[Phase.explicit, Phase.generate, Phase.shrink])
            @given(case=strat)
            def t(case):
                one(case, state)

            try:
                t()
                break
            except Violation as v:
                case, vv = state.get("last", (None, v))
                violations.append({"tag": vv.tag, "msg": vv.msg, "details": _js(vv.details), "case": case})
                ignore.add(vv.tag)
                continue
            except AbortSearch:
                case, vv = state["last"]
                violations.append({"tag": vv.tag, "msg": vv.msg, "details": _js(vv.details), "case": case})
                break
            except HarnessError as e:
                harness_error = str(e)
                break
            except BaseException as e:  # hypothesis health checks, flaky, etc.
                if isinstance(e, KeyboardInterrupt):
                    raise
                last = state.get("last")
                if last is not None and type(e).__name__ in ("Flaky", "FlakyFailure"):
                    # the same case failed once and passed when re-run: the code under test carries state from
                    # one call to the next.  That is a violation of the property on the recorded HISTORY of cases
                    # (replayed in order by --replay), not a harness problem.
                    case, vv = last
                    violations.append({"tag": vv.tag, "msg": "(history-dependent: fails only after the preceding cases) " + vv.msg,
                                       "details": _js(vv.details), "case": case, "history": state.get("history", [case])})
                    ignore.add(vv.tag)
                    continue
                harness_error = "%s: %s\n%s" % (type(e).__name__, e, traceback.format_exc())
                if last is not None:
                    harness_error += "\n(last violating case: %s / %s)" % (last[1], core.canon(last[0])[:2000])
                break

    res = {
        "property": pid, "subcheck": subname, "tier": tier, "shard": shard, "seed": seed,
        "evaluations": stats.evaluations, "ok": stats.ok, "skipped": stats.skipped,
        "excluded": stats.excluded, "labels": stats.labels, "nt_hashes": sorted(stats.nt_hashes),
        "samples": stats.samples, "violations": violations, "harness_error": harness_error,
        "budget_skipped": stats.budget_skipped, "exhaustive": exhaustive,
        "wall_s": round(time.time() - t0, 3),
    }
    with open(out, "w") as f:
        json.dump(res, f)


def _js(o):
    try:
        json.dumps(o)
        return o
    except Exception:
        return repr(o)


def replay_case(pid, subname, case, tier="quick", known=(), ignore=(), history=None):
    """Plain regression run of one case (no Hypothesis). Returns None or a violation dict.
    ``history``: cases to run first, in order, in the same process (for history-dependent failures)."""
    mod = core.load_prop(pid)
    sc = [s for s in mod.SUBCHECKS if s.name == subname][0]
    for h in (history or [])[:-1]:
        try:
            run_case(sc, h, Ctx(tier=tier, active_known=known, ignore_tags=ignore))
        except (Skip, Excluded, Violation):
            pass
    ctx = Ctx(tier=tier, active_known=known, ignore_tags=ignore)
    try:
        run_case(sc, case, ctx)
    except (Skip, Excluded):
        return None
    except Violation as v:
        return {"tag": v.tag, "msg": v.msg, "details": _js(v.details), "case": case}
    return None


def pre(pid, tier, out):
    """Replay the committed corpus (must pass) and the witnesses of known findings."""
    from vp import findings
    res = {"corpus": [], "known_active": [], "known_gone": [], "harness_error": None}
    try:
        # 1. which known findings are still present?
        for kf in findings.load(pid, status="known"):
            v = replay_case(pid, kf["subcheck"], kf["witness"], tier)
            if v is not None:
                res["known_active"].append({"slug": kf["slug"], "what": kf["what"], "tag": v["tag"]})
            else:
                res["known_gone"].append(kf["slug"])
        active = [k["slug"] for k in res["known_active"]]
        # 2. corpus: plain must-pass regression cases (includes witnesses of fixed findings)
        cdir = os.path.join(core.verif_root(), "corpus", pid)
        if os.path.isdir(cdir):
            for fn in sorted(os.listdir(cdir)):
                if not fn.endswith(".json"):
                    continue
                with open(os.path.join(cdir, fn)) as f:
                    d = json.load(f)
                v = replay_case(pid, d["subcheck"], d["case"], tier, known=active)
                res["corpus"].append({"file": fn, "subcheck": d["subcheck"], "violation": v})
    except HarnessError as e:
        res["harness_error"] = str(e)
    except Exception as e:
        res["harness_error"] = "%s: %s\n%s" % (type(e).__name__, e, traceback.format_exc())
    with open(out, "w") as f:
        json.dump(res, f)


def limit_memory():
    """Runaway allocation in the code under test (e.g. an endless list) must surface as MemoryError inside the case - an
    exception the check reports - not as an OOM kill of the worker.  VERIF_MEM_MB (default 3072) caps the address space."""
    try:
        import resource
        mb = int(os.environ.get("VERIF_MEM_MB", "3072"))
        if mb > 0:
            soft, hard = resource.getrlimit(resource.RLIMIT_AS)
            lim = mb * 1024 * 1024
            if hard != resource.RLIM_INFINITY:
                lim = min(lim, hard)
            resource.setrlimit(resource.RLIMIT_AS, (lim, hard))
    except Exception:
        pass


def start_line_coverage():
    """VERIF_COVERAGE=<prefix>: record which lines of geomdl this worker executes (sys.monitoring, each line once) and dump
    them to <prefix>.<pid>.json at exit.  A development aid (tools/coverage_report.py), not part of any check."""
    prefix = os.environ.get("VERIF_COVERAGE")
    if not prefix or not hasattr(sys, "monitoring"):
        return
    import atexit
    mon = sys.monitoring
    tool = mon.COVERAGE_ID
    root = os.path.join(os.path.abspath(core.repo_root()), "geomdl")
    seen = set()

    def on_line(code, line):
        fn = code.co_filename
        if fn.startswith(root):
            seen.add((os.path.relpath(fn, root), line))
        return mon.DISABLE

    try:
        mon.use_tool_id(tool, "verif-lines")
    except ValueError:
        return
    mon.register_callback(tool, mon.events.LINE, on_line)
    mon.set_events(tool, mon.events.LINE)

    def dump():
        with open("%s.%d.json" % (prefix, os.getpid()), "w") as f:
            json.dump(sorted(seen), f)
    atexit.register(dump)


def main(argv):
    pid, mode = argv[0], argv[1]
    limit_memory()
    start_line_coverage()
    import geomdl
    root = os.path.abspath(core.repo_root())
    if not os.path.abspath(geomdl.__file__).startswith(root):
        sys.stderr.write("geomdl imported from %s, expected under %s\n" % (geomdl.__file__, root))
        sys.exit(2)
    if mode == "search":
        subname, tier, shard, nshards, seed, out, known = argv[2:9]
        known = [] if known == "-" else known.split(",")
        search(pid, subname, tier, int(shard), int(nshards), int(seed), out, known)
    elif mode == "pre":
        pre(pid, argv[2], argv[3])
    else:
        sys.exit(2)


if __name__ == "__main__":
    main(sys.argv[1:])
