"""Shared helpers for shape-invariance checks (C04-C07, C10, C17...): parameter lattices and comparisons."""
import itertools
from fractions import Fraction as F

from vp import build, ref


def lattice_1d(p, kv, n, extra=(), limit=5, near=False):
    """Parameters in [kv[p], kv[n]]: both ends, breakpoints, span midpoints and the extras; at most ``limit`` +
    len(extra) values, always containing the ends and the extras."""
    a, b = kv[p], kv[n]
    bps = sorted(set(k for k in kv[p:n + 1] if a <= k <= b))
    mids = [x + (y - x) / 2.0 for x, y in zip(bps, bps[1:])]
    cand = sorted(set(bps + mids))
    must = sorted(set([a, b] + [e for e in extra if a <= e <= b]))
    if near and len(bps) >= 2:
        # a few parameters 1/4096 of a span away from a breakpoint (where some basis functions are tiny but not zero)
        must = sorted(set(must + [bps[0] + (bps[1] - bps[0]) / 4096.0, bps[-1] - (bps[-1] - bps[-2]) / 65536.0]
                          + ([bps[1] - (bps[1] - bps[0]) / 65536.0, bps[1] + (bps[2] - bps[1]) / 4096.0] if len(bps) >= 3 else [])))
    rest = [c for c in cand if c not in must]
    room = max(0, limit - 2)
    if len(rest) > room:
        # evenly spaced pick, deterministic
        step = len(rest) / float(room) if room else 0
        rest = [rest[int(i * step)] for i in range(room)]
    return sorted(set(must + rest))


def lattice(degs, kvs, sizes, extras=None, limit=None):
    pdim = len(degs)
    if limit is None:
        limit = {1: 9, 2: 5, 3: 3}[pdim]
    extras = extras or [()] * pdim
    axes = [lattice_1d(p, kv, n, extra=e, limit=limit, near=(pdim == 1)) for p, kv, n, e in zip(degs, kvs, sizes, extras)]
    return list(itertools.product(*axes))


def obj_lattice(obj, extras=None, limit=None):
    return lattice(build.degrees_of(obj), build.kvs_of(obj), build.sizes_of(obj), extras, limit)


def same_shape(ctx, R, obj, params, tag, what, rel=1e-9, pmap=None):
    """The library object evaluates, at every lattice parameter, to the exact reference R (of the ORIGINAL
    definition).  ``pmap`` maps a lattice parameter tuple of R to the parameter tuple of obj (default identity)."""
    for us in params:
        r, scale = R.point(us)
        q = list(us) if pmap is None else pmap(us)
        got = obj.evaluate_single(build.call_param(obj, [float(x) for x in q]))
        ctx.check(ref.vec_close(got, r, scale, rel), tag,
                  "%s: point at %r is %r, the original shape gives %r" % (what, [float(x) for x in q], got, ref.fl(r)))
    # the documented second way to read a point: the zeroth derivative ("SKL[0][0] will be the surface point itself")
    params = list(params)
    if obj.pdimension <= 2 and params:
        for us in (params[0], params[len(params) // 2], params[-1]):
            r, scale = R.point(us)
            q = [float(x) for x in (list(us) if pmap is None else pmap(us))]
            got = obj.derivatives(q[0], order=0)[0] if obj.pdimension == 1 else obj.derivatives(q[0], q[1], order=0)[0][0]
            ctx.check(ref.vec_close(got, r, scale, rel), tag,
                      "%s: point at %r read as the zeroth derivative is %r, the original shape gives %r" % (what, q, got, ref.fl(r)))


def multiplicity(kv, u):
    return sum(1 for k in kv if k == u)


def eval_points(obj, params):
    return [list(obj.evaluate_single(build.call_param(obj, [float(x) for x in us]))) for us in params]


def pts_close(a, b, rel=1e-9):
    if len(a) != len(b):
        return False
    for p, q in zip(a, b):
        if len(p) != len(q):
            return False
        for x, y in zip(p, q):
            if abs(x - y) > rel * (1.0 + abs(y)):
                return False
    return True


KNOT_TOL = 1e-15  # the normalising knot-vector setters round to 18 decimals (documented precision)


def kv_close(a, b, tol=KNOT_TOL):
    return len(a) == len(b) and all(abs(x - y) <= tol * max(1.0, abs(y)) for x, y in zip(a, b))


def kv_plus(kv, u, c):
    return sorted(list(kv) + [u] * c)


def kv_minus(kv, u, c):
    """kv with the c entries closest to u removed (they must be within the library's knot identification tolerance 1e-7 of u)."""
    out = list(kv)
    for _ in range(c):
        i = min(range(len(out)), key=lambda j: abs(out[j] - u))
        if abs(out[i] - u) > 1e-7:
            return None
        out.pop(i)
    return out


def views_match(ctx, obj, tag, what):
    """The three documented readings of a rational net (ctrlptsw, ctrlpts, weights) describe the same net: same number of
    entries, Pw = (w*P, w).  For a non-rational shape only the count is compared with the sizes."""
    total = 1
    for s in build.sizes_of(obj):
        total *= s
    P = [list(q) for q in obj.ctrlpts]
    ctx.check(len(P) == total, tag, "%s: ctrlpts has %d entries for a net of %d" % (what, len(P), total))
    if not obj.rational:
        return
    W, PW = list(obj.weights), [list(q) for q in obj.ctrlptsw]
    ctx.check(len(W) == total and len(PW) == total, tag, "%s: weights has %d and ctrlptsw %d entries for a net of %d" % (what, len(W), len(PW), total))
    if len(P) == len(W) == len(PW):
        big = max([1e-300] + [abs(c) for q in PW for c in q[:-1]])
        for q, w, pw in zip(P, W, PW):
            ctx.check(w == pw[-1] and all(abs(c * w - x) <= 1e-9 * big for c, x in zip(q, pw[:-1])), tag,
                      "%s: ctrlpts/weights entry %r, %r does not match ctrlptsw entry %r" % (what, q, w, pw))
