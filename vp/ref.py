"""Exact reference model for B-spline / NURBS shapes, independent of geomdl.

Everything is computed in ``fractions.Fraction``.  Basis functions are obtained by running the
Cox-de Boor recursion *on polynomials in u* (one polynomial per active function per knot span), so
values and derivatives are plain polynomial evaluation / differentiation -- a formulation that shares
nothing with the NURBS Book algorithms A2.2/A2.3/A2.5/A3.x/A4.x the library implements.

Conventions (from the library documentation):
  * flat control net index of (iu, iv, iw) is  iv + nv*(iu + nu*iw)   ("v varies first")
  * rational shapes store homogeneous points (x*w, y*w, z*w, w)
  * derivatives at a knot are taken from the right, at the domain end from the left
"""
from fractions import Fraction as F
from functools import lru_cache
from math import comb


def Fr(x):
    return x if isinstance(x, F) else F(x)


# ------------------------------------------------------------------ univariate polynomials (low -> high)
def padd(a, b):
    n = max(len(a), len(b))
    return [(a[i] if i < len(a) else 0) + (b[i] if i < len(b) else 0) for i in range(n)]


def pmul(a, b):
    if not a or not b:
        return []
    r = [F(0)] * (len(a) + len(b) - 1)
    for i, x in enumerate(a):
        if x == 0:
            continue
        for j, y in enumerate(b):
            r[i + j] += x * y
    return r


def pscale(a, c):
    return [x * c for x in a]


def pder(a, k=1):
    for _ in range(k):
        a = [a[i] * i for i in range(1, len(a))]
    return a


def peval(a, u):
    r = F(0)
    for c in reversed(a):
        r = r * u + c
    return r


# ------------------------------------------------------------------ spans and basis functions
def span(p, U, n, u):
    """The unique j in [p, n-1] with U[j] <= u < U[j+1] (non-empty); the last non-empty one at u == U[n].
    n = number of control points; domain is [U[p], U[n]]."""
    if not (U[p] <= u <= U[n]):
        raise ValueError("parameter outside the domain")
    if u == U[n]:
        j = n - 1
        while U[j] == U[j + 1]:
            j -= 1
        return j
    for j in range(p, n):
        if U[j] <= u < U[j + 1]:
            return j
    raise AssertionError("no span")


@lru_cache(maxsize=4096)
def _basis_polys(p, U, j):
    N = {j: [F(1)]}
    for d in range(1, p + 1):
        M = {}
        for i in range(j - d, j + 1):
            t = []
            a = N.get(i)
            b = N.get(i + 1)
            if a is not None and U[i + d] != U[i]:
                den = U[i + d] - U[i]
                t = padd(t, pmul([-U[i] / den, F(1) / den], a))
            if b is not None and U[i + d + 1] != U[i + 1]:
                den = U[i + d + 1] - U[i + 1]
                t = padd(t, pmul([U[i + d + 1] / den, F(-1) / den], b))
            M[i] = t
        N = M
    return tuple(tuple(N.get(i, [])) for i in range(j - p, j + 1))


def basis_polys(p, U, j):
    """Polynomials of N_{j-p..j, p} valid on [U_j, U_{j+1}) (Cox-de Boor on polynomials, 0/0 := 0)."""
    return [list(q) for q in _basis_polys(p, tuple(U), j)]


def basis_ders(p, U, j, u, k):
    """[[N_i^(d)(u) for i in j-p..j] for d in 0..k], one-sided on span j."""
    polys = basis_polys(p, U, j)
    return [[peval(pder(q, d), u) for q in polys] for d in range(k + 1)]


def basis_one(p, U, i, u, n):
    """N_{i,p}(u) for any i in 0..n-1 (0 when inactive), half-open convention with the closed domain end."""
    j = span(p, U, n, u)
    if i < j - p or i > j:
        return F(0)
    return peval(basis_polys(p, U, j)[i - (j - p)], u)


# ------------------------------------------------------------------ exact spline definition
class Spline(object):
    """Exact tensor-product spline: degrees, knot vectors, sizes (per direction, order u, v, w),
    homogeneous (rational) or plain control points in the library's flat order."""

    def __init__(self, degrees, kvs, sizes, pts, rational):
        self.degrees = list(degrees)
        self.kvs = [[Fr(k) for k in kv] for kv in kvs]
        self.sizes = list(sizes)
        self.pts = [[Fr(c) for c in p] for p in pts]
        self.rational = rational
        self.pdim = len(self.degrees)
        self.dim = len(self.pts[0]) - (1 if rational else 0)
        n = 1
        for s in self.sizes:
            n *= s
        assert n == len(self.pts), (self.sizes, len(self.pts))
        for p, kv, s in zip(self.degrees, self.kvs, self.sizes):
            assert len(kv) == s + p + 1, (len(kv), s, p)

    @classmethod
    def from_defn(cls, d, kvs=None):
        """From a generated definition dict (see vp/gen.py); ``kvs`` overrides with read-back knot vectors."""
        P = d["P"]
        if d["rational"]:
            pts = [[Fr(c) * Fr(w) for c in p] + [Fr(w)] for p, w in zip(P, d["W"])]
        else:
            pts = P
        return cls(d["degree"], kvs if kvs is not None else d["kv"], d["size"], pts, d["rational"])

    # -- indexing -----------------------------------------------------------------
    def flat(self, idx):
        if self.pdim == 1:
            return idx[0]
        if self.pdim == 2:
            return idx[1] + self.sizes[1] * idx[0]
        return idx[1] + self.sizes[1] * (idx[0] + self.sizes[0] * idx[2])

    def domain(self):
        return [(kv[p], kv[s]) for p, kv, s in zip(self.degrees, self.kvs, self.sizes)]

    def spans(self, params):
        return [span(p, kv, s, Fr(u)) for p, kv, s, u in zip(self.degrees, self.kvs, self.sizes, params)]

    def active(self, params):
        """Flat indices of the (p+1)^pdim control points active at params."""
        sp = self.spans(params)
        rngs = [range(j - p, j + 1) for j, p in zip(sp, self.degrees)]
        out = []
        import itertools
        for idx in itertools.product(*rngs):
            out.append(self.flat(idx))
        return out

    # -- evaluation -----------------------------------------------------------------
    def _hders(self, params, orders):
        """Exact derivatives of the homogeneous (or plain) sum: dict {(k,l,..): (vector, abs-scale vector)}
        for all multi-orders <= orders componentwise."""
        import itertools
        params = [Fr(u) for u in params]
        sp = self.spans(params)
        bd = [basis_ders(p, kv, j, u, o) for p, kv, j, u, o in zip(self.degrees, self.kvs, sp, params, orders)]
        ncoord = len(self.pts[0])
        out = {}
        for ks in itertools.product(*[range(o + 1) for o in orders]):
            acc = [F(0)] * ncoord
            mag = [F(0)] * ncoord
            for loc in itertools.product(*[range(p + 1) for p in self.degrees]):
                c = F(1)
                for d in range(self.pdim):
                    c *= bd[d][ks[d]][loc[d]]
                if c == 0:
                    continue
                pt = self.pts[self.flat([sp[d] - self.degrees[d] + loc[d] for d in range(self.pdim)])]
                ac = abs(c)
                for t in range(ncoord):
                    acc[t] += c * pt[t]
                    mag[t] += ac * abs(pt[t])
            out[ks] = (acc, mag)
        return out

    def point(self, params):
        """Exact Cartesian point and a magnitude scale for tolerances."""
        z = tuple([0] * self.pdim)
        acc, mag = self._hders(params, z)[z]
        if not self.rational:
            return acc, max([F(1)] + mag)
        w = acc[-1]
        return [a / w for a in acc[:-1]], max([F(1)] + [m / w for m in mag[:-1]])

    def derivatives(self, params, order):
        """Exact derivatives D[(k,l)] (Cartesian) for all k+l <= order (pdim 1 or 2), one-sided as documented.
        Returns (dict multi-order -> vector, dict multi-order -> magnitude scale).
        Rational shapes: Taylor-series division  (C*w = A  solved order by order, exactly)."""
        import itertools
        H = self._hders(params, [order] * self.pdim)
        keys = [ks for ks in itertools.product(*[range(order + 1)] * self.pdim) if sum(ks) <= order]
        keys.sort(key=lambda ks: (sum(ks), ks))
        D, M = {}, {}
        if not self.rational:
            for ks in keys:
                D[ks] = H[ks][0]
                M[ks] = max([F(1)] + H[ks][1])
            return D, M
        w0 = H[tuple([0] * self.pdim)][0][-1]
        for ks in keys:
            A = H[ks][0][:-1]
            mA = max([F(0)] + H[ks][1][:-1])
            acc = list(A)
            macc = mA
            # subtract sum over (0,..) < js <= ks of prod binom * w^(js) * C^(ks-js)
            for js in itertools.product(*[range(k + 1) for k in ks]):
                if sum(js) == 0:
                    continue
                b = 1
                for k, j in zip(ks, js):
                    b *= comb(k, j)
                wj = H[js][0][-1]
                rest = tuple(k - j for k, j in zip(ks, js))
                for t in range(len(acc)):
                    acc[t] -= b * wj * D[rest][t]
                macc += b * H[js][1][-1] * M[rest]
            D[ks] = [a / w0 for a in acc]
            M[ks] = max(F(1), macc / w0)
        return D, M

    def curve_ders_quotient_rule(self, u, order):
        """Independent second route for rational curves: symbolic repeated quotient rule on the span polynomial
        (N/D^m)' = (N' D - m N D') / D^(m+1).  Used to cross-validate ``derivatives``."""
        assert self.pdim == 1
        u = Fr(u)
        p, kv, n = self.degrees[0], self.kvs[0], self.sizes[0]
        j = span(p, kv, n, u)
        polys = basis_polys(p, kv, j)
        ncoord = len(self.pts[0])
        comp = []
        for t in range(ncoord):
            acc = []
            for loc in range(p + 1):
                acc = padd(acc, pscale(polys[loc], self.pts[j - p + loc][t]))
            comp.append(acc)
        if not self.rational:
            return [[peval(pder(c, k), u) for c in comp] for k in range(order + 1)]
        Dn = comp[-1]
        dDn = pder(Dn)
        res = []
        nums = [list(c) for c in comp[:-1]]
        m = 1
        for k in range(order + 1):
            den = peval(Dn, u) ** m
            res.append([peval(N, u) / den for N in nums])
            nums = [padd(pmul(pder(N), Dn), pscale(pmul(N, dDn), -m)) for N in nums]
            m += 1
        return res


# ------------------------------------------------------------------ comparison helpers
def close(x, r, scale, rel=1e-9):
    """|x - r| <= rel * scale, with r and scale exact Fractions (scale >= 1 by construction)."""
    try:
        return abs(F(x) - r) <= F(rel) * scale
    except (ValueError, OverflowError, TypeError):
        return False


def vec_close(xs, rs, scale, rel=1e-9):
    if len(xs) != len(rs):
        return False
    return all(close(x, r, scale, rel) for x, r in zip(xs, rs))


def fl(v):
    """Fractions -> floats for messages."""
    if isinstance(v, (list, tuple)):
        return [fl(x) for x in v]
    if isinstance(v, dict):
        return {str(k): fl(x) for k, x in v.items()}
    if isinstance(v, F):
        return float(v)
    return v


# ------------------------------------------------------------------ Bernstein / Bezier
def bernstein_to_power(ctrl):
    """Power-basis coefficient vectors (per coordinate) of the Bezier curve with control points ctrl on [0,1]."""
    p = len(ctrl) - 1
    dim = len(ctrl[0])
    coefs = [[F(0)] * (p + 1) for _ in range(dim)]
    for i, P in enumerate(ctrl):
        # B_{i,p}(t) = C(p,i) t^i (1-t)^(p-i) = sum_k C(p,i) C(p-i,k) (-1)^k t^(i+k)
        for k in range(p - i + 1):
            c = comb(p, i) * comb(p - i, k) * (-1) ** k
            for d in range(dim):
                coefs[d][i + k] += c * Fr(P[d])
    return coefs


def bezier_elevate(ctrl, t):
    """Exact degree elevation of a Bezier polygon by t (closed form)."""
    p = len(ctrl) - 1
    dim = len(ctrl[0])
    out = []
    for i in range(p + t + 1):
        acc = [F(0)] * dim
        for j in range(max(0, i - t), min(p, i) + 1):
            c = F(comb(p, j) * comb(t, i - j), comb(p + t, i))
            for d in range(dim):
                acc[d] += c * Fr(ctrl[j][d])
        out.append(acc)
    return out


def fsqrt(q):
    """Square root of a non-negative Fraction as a float, without overflow/underflow of the radicand."""
    import math
    q = Fr(q)
    if q == 0:
        return 0.0
    e = (q.numerator.bit_length() - q.denominator.bit_length()) // 2 * 2
    return math.sqrt(float(q / F(2) ** e)) * 2.0 ** (e // 2)


# ------------------------------------------------------------------ exact linear algebra
def mat_det(A):
    """Bareiss / fraction elimination determinant."""
    A = [[Fr(x) for x in row] for row in A]
    n = len(A)
    det = F(1)
    for c in range(n):
        piv = None
        for r in range(c, n):
            if A[r][c] != 0:
                piv = r
                break
        if piv is None:
            return F(0)
        if piv != c:
            A[c], A[piv] = A[piv], A[c]
            det = -det
        det *= A[c][c]
        for r in range(c + 1, n):
            f = A[r][c] / A[c][c]
            if f != 0:
                for k in range(c, n):
                    A[r][k] -= f * A[c][k]
    return det


def mat_solve(A, B):
    """Exact solution X of A X = B (B is n x m); None if singular."""
    n = len(A)
    M = [[Fr(x) for x in row] + [Fr(x) for x in brow] for row, brow in zip(A, B)]
    m = len(M[0])
    for c in range(n):
        piv = None
        for r in range(c, n):
            if M[r][c] != 0:
                piv = r
                break
        if piv is None:
            return None
        M[c], M[piv] = M[piv], M[c]
        pv = M[c][c]
        M[c] = [x / pv for x in M[c]]
        for r in range(n):
            if r != c and M[r][c] != 0:
                f = M[r][c]
                M[r] = [x - f * y for x, y in zip(M[r], M[c])]
    return [row[n:] for row in M]


def mat_mul(A, B):
    return [[sum(Fr(A[i][k]) * Fr(B[k][j]) for k in range(len(B))) for j in range(len(B[0]))] for i in range(len(A))]


# ------------------------------------------------------------------ exact planar geometry (integers / fractions)
def orient(a, b, c):
    """> 0 if c is left of the directed line a->b, < 0 right, 0 collinear."""
    return (Fr(b[0]) - Fr(a[0])) * (Fr(c[1]) - Fr(a[1])) - (Fr(c[0]) - Fr(a[0])) * (Fr(b[1]) - Fr(a[1]))


def winding_number(pt, poly):
    """Exact winding number of a closed polygon (poly[0] == poly[-1]) around pt (pt not on the boundary)."""
    wn = 0
    px, py = Fr(pt[0]), Fr(pt[1])
    for i in range(len(poly) - 1):
        a, b = poly[i], poly[i + 1]
        ay, by = Fr(a[1]), Fr(b[1])
        if ay <= py:
            if by > py and orient(a, b, pt) > 0:
                wn += 1
        else:
            if by <= py and orient(a, b, pt) < 0:
                wn -= 1
    return wn


def on_segment(pt, a, b):
    if orient(a, b, pt) != 0:
        return False
    return (min(Fr(a[0]), Fr(b[0])) <= Fr(pt[0]) <= max(Fr(a[0]), Fr(b[0])) and
            min(Fr(a[1]), Fr(b[1])) <= Fr(pt[1]) <= max(Fr(a[1]), Fr(b[1])))


def on_boundary(pt, poly):
    return any(on_segment(pt, poly[i], poly[i + 1]) for i in range(len(poly) - 1))


def convex_hull_ccw(points):
    """Strictly extreme points of the hull, counter-clockwise (Andrew monotone chain, exact)."""
    pts = sorted(set((Fr(p[0]), Fr(p[1])) for p in points))
    if len(pts) <= 2:
        return pts
    lower = []
    for p in pts:
        while len(lower) >= 2 and orient(lower[-2], lower[-1], p) <= 0:
            lower.pop()
        lower.append(p)
    upper = []
    for p in reversed(pts):
        while len(upper) >= 2 and orient(upper[-2], upper[-1], p) <= 0:
            upper.pop()
        upper.append(p)
    return lower[:-1] + upper[:-1]


# ------------------------------------------------------------------ plain float Cox-de Boor (for fitting checks, where
# parameters and knots are arbitrary floats and exact rationals would be needlessly heavy)
def fspan(p, U, n, u):
    if u >= U[n]:
        j = n - 1
        while U[j] == U[j + 1]:
            j -= 1
        return j
    for j in range(p, n):
        if U[j] <= u < U[j + 1]:
            return j
    return p


def fbasis_all(p, U, n, u):
    """[N_0(u) .. N_{n-1}(u)] by the recursive definition evaluated bottom-up in floats (0/0 := 0)."""
    j = fspan(p, U, n, u)
    m = len(U) - 1
    N = [0.0] * m
    N[j] = 1.0
    for d in range(1, p + 1):
        M = [0.0] * (m - d)
        for i in range(m - d):
            t = 0.0
            if N[i] != 0.0 and U[i + d] != U[i]:
                t += (u - U[i]) / (U[i + d] - U[i]) * N[i]
            if N[i + 1] != 0.0 and U[i + d + 1] != U[i + 1]:
                t += (U[i + d + 1] - u) / (U[i + d + 1] - U[i + 1]) * N[i + 1]
            M[i] = t
        N = M
    return N[:n]
