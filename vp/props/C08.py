"""C08 - degree elevation preserves a Bezier shape and reduction inverts it (DESIGN.md section 5, C08)."""
from fractions import Fraction as F

from hypothesis import strategies as st

from geomdl import helpers
from geomdl.exceptions import GeomdlException

from vp import gen, ref
from vp.core import SubCheck

RULE = ("Cases: Bezier polygons of degree 1..8 (points with 2-4 coordinates, Cartesian or homogeneous, or rows of points), "
        "elevation counts 1..4; oracle = exact Bernstein-to-power-basis comparison (same polynomial curve) and exact "
        "closed-form elevation in Fractions as the input of the reduction round trip.")
ASSUMPTIONS = ["elevated control points compared to 1e-10 * (1 + max |coordinate|); reduction to 1e-8 * scale"]


@st.composite
def _polygon(draw, pmin=1, pmax=8):
    p = draw(st.integers(pmin, pmax))
    dim = draw(st.integers(2, 4))
    homog = draw(st.booleans())
    pts = draw(gen.points(p + 1, dim))
    if homog:
        w = draw(gen.weights(p + 1, force="varied"))
        pts = [[c * wi for c in q[:-1]] + [wi] for q, wi in zip(pts, w)]
    rows = draw(st.sampled_from([0, 0, 1, 2, 3, 5]))
    if not homog and draw(st.integers(0, 4)) == 0:
        pts = [[int(c * 8) for c in q] for q in pts]          # integer coordinates are control points too
    return {"p": p, "pts": pts, "homog": homog, "rows": rows, "dim": dim}


def _as_rows(pts, rows):
    # row j of every control "point" is the polygon translated by j (and scaled), so rows differ from each other
    return [[[c * (1 + j) + 0.25 * j for c in q] for j in range(rows)] for q in pts]


@st.composite
def _elev_cases(draw, tier):
    c = draw(_polygon())
    c["t"] = draw(st.integers(1, 4))
    c["frac"] = draw(st.integers(0, 7)) == 0          # coordinates given as exact rationals (fractions.Fraction): numbers, but neither float nor int
    return c


def check_elevate(case, ctx):
    p, t, rows = case["p"], case["t"], case["rows"]
    pts = case["pts"]
    cp = _as_rows(pts, rows) if rows else [list(q) for q in pts]
    ctx.nt(p >= 3, "degree>=3")
    ctx.nt(t >= 2, "count>=2")
    ctx.nt(case["homog"], "homogeneous")
    ctx.nt(rows > 0, "rows")
    ctx.label("integer-coordinates", isinstance(pts[0][0], int))
    if case.get("frac") and not rows:
        cp = [[F(c) for c in q] for q in pts]
        ctx.label("rational-number-coordinates")
    out = helpers.degree_elevation(p, cp, num=t)
    ctx.check(len(out) == p + t + 1, "elevated-count", "degree_elevation(%d, num=%d) returned %d control points" % (p, t, len(out)))
    for j in range(max(rows, 1)):
        src = [q[j] for q in cp] if rows else cp
        got = [q[j] for q in out] if rows else out
        if rows:
            ctx.check(all(len(q) == rows for q in out), "elevated-row-shape", "row form returned rows of length %r" % [len(q) for q in out])
        want = ref.bezier_elevate(src, t)
        big = 1 + max(abs(c) for q in src for c in q)
        for i, (g, w) in enumerate(zip(got, want)):
            ctx.check(len(g) == len(w) and all(abs(F(x) - y) <= F(1, 10 ** 10) * F(big) for x, y in zip(g, w)), "elevated-point",
                      "elevating degree %d by %d: control point %d is %r, exact %r" % (p, t, i, g, ref.fl(w)))
        # same polynomial curve: compare power-basis coefficients exactly-ish
        a = ref.bernstein_to_power(src)
        b = ref.bernstein_to_power([[F(x) for x in q] for q in got])
        for d in range(len(a)):
            ca = a[d] + [F(0)] * (len(b[d]) - len(a[d]))
            scale = 1 + max(abs(x) for x in ca)
            # power-basis conversion amplifies rounding by binomials <= C(12,6); 1e-7 relative is far below a real defect
            ctx.check(all(abs(x - y) <= F(1, 10 ** 7) * scale for x, y in zip(ca, b[d])), "elevated-curve-differs",
                      "elevating degree %d by %d changes the curve (coordinate %d)" % (p, t, d))
        ctx.check(all(abs(x - y) <= 1e-12 * big for x, y in zip(got[0], src[0])) and all(abs(x - y) <= 1e-12 * big for x, y in zip(got[-1], src[-1])),
                  "elevated-end-points", "end points changed: %r..%r from %r..%r" % (got[0], got[-1], src[0], src[-1]))


@st.composite
def _reduce_cases(draw, tier):
    c = draw(_polygon(1, 8))
    c["rows"] = 0
    return c


def check_reduce(case, ctx):
    p = case["p"]
    pts = case["pts"]
    Q = [[float(x) for x in q] for q in ref.bezier_elevate(pts, 1)]   # exactly reducible polygon of degree p+1
    ctx.nt(p + 1 >= 4, "reduce-from-degree>=4")
    ctx.nt(case["homog"], "homogeneous")
    ctx.label("reduce-from-degree:%d" % (p + 1))
    keep = [list(q) for q in Q]
    out = helpers.degree_reduction(p + 1, Q)
    ctx.check(Q == keep, "reduction-input-modified", "degree_reduction modified its input")
    ctx.check(len(out) == p + 1, "reduced-count", "degree_reduction(%d) returned %d control points" % (p + 1, len(out)))
    big = 1 + max(abs(c) for q in pts for c in q)
    for i, (g, w) in enumerate(zip(out, pts)):
        ctx.check(len(g) == len(w) and all(abs(x - y) <= 1e-8 * big for x, y in zip(g, w)), "reduction-not-inverse",
                  "reducing an exact elevation of degree %d: control point %d is %r, original %r" % (p, i, g, w))


@st.composite
def _reject_cases(draw, tier):
    c = draw(_polygon(2, 6))
    c["rows"] = 0
    c["bad"] = draw(st.sampled_from(["too-many", "too-few", "num-zero", "num-negative", "reduce-too-many", "reduce-too-few"]))
    c["k"] = draw(st.integers(1, 3))
    return c


def check_reject(case, ctx):
    p, pts, bad, k = case["p"], [list(q) for q in case["pts"]], case["bad"], case["k"]
    ctx.nt(True, "rejection:" + bad)
    raised = False
    try:
        if bad == "too-many":
            helpers.degree_elevation(p - min(k, p - 1), pts, num=1)      # more points than degree+1
        elif bad == "too-few":
            helpers.degree_elevation(p + k, pts, num=1)
        elif bad == "num-zero":
            helpers.degree_elevation(p, pts, num=0)
        elif bad == "num-negative":
            helpers.degree_elevation(p, pts, num=-k)
        elif bad == "reduce-too-many":
            helpers.degree_reduction(p - min(k, p - 1) if p - min(k, p - 1) >= 2 else p + k, pts)
        else:
            helpers.degree_reduction(p + k, pts)
    except GeomdlException:
        raised = True
    ctx.check(raised, "not-rejected", "%s: non-Bezier input / non-positive count was accepted (degree %d, %d points)" % (bad, p, len(pts)))


# ------------------------------------------------------------------------------------------------ Bezier curve objects
@st.composite
def _curve_cases(draw, tier):
    c = draw(_polygon(1, 6))
    c["rows"] = 0
    if c["homog"] and len(c["pts"][0]) == 2:
        # a rational curve object needs two Cartesian coordinates besides the weight
        c["pts"] = [[q[0], q[0] * 0.5 + q[1], q[1]] for q in c["pts"]]
    c["t"] = draw(st.integers(1, 3))
    c["read_views"] = draw(st.booleans())
    c["scale_exp"] = draw(st.sampled_from([0, 0, 0, -30, 12]))
    c["second"] = draw(_polygon(c["p"], c["p"]))          # another polygon of the same degree for the second round
    # the segment's parameter interval: [0, 1], or any other one on a curve created with normalize_kv=False
    c["dom"] = draw(st.sampled_from([None, None, None, [0.25, 0.75], [2.0, 5.0], [-1.0, 0.5], [0.0, 4.0]]))
    return c


def _bezier_curve(p, pts, homog, dom=None):
    from geomdl import BSpline, NURBS
    kw = {"normalize_kv": False} if dom else {}
    crv = NURBS.Curve(**kw) if homog else BSpline.Curve(**kw)
    crv.degree = p
    crv.set_ctrlpts([list(q) for q in pts])
    a, b = dom or (0.0, 1.0)
    crv.knotvector = [a] * (p + 1) + [b] * (p + 1)
    return crv


def _scaled_poly(c, pts):
    e = c.get("scale_exp", 0)
    if not e:
        return [[float(x) for x in q] for q in pts]
    k = len(pts[0]) - 1 if c["homog"] else len(pts[0])          # the weight coordinate is not scaled
    return [[float(x) * 2.0 ** e for x in q[:k]] + [float(x) for x in q[k:]] for q in pts]


def check_curve(case, ctx):
    """The same statement through the object-level entry point: ``operations.degree_operations`` on a Bezier curve object
    (one segment) elevates / reduces with the helpers and stores the result on the curve."""
    from geomdl import operations
    p, t, homog = case["p"], case["t"], case["homog"]
    ctx.nt(p >= 3, "degree>=3")
    ctx.nt(t >= 2, "count>=2")
    ctx.nt(homog, "homogeneous")
    ctx.label("tiny-or-large-coordinates", bool(case["scale_exp"]))
    second = dict(case["second"])
    if second["homog"] != homog or len(second["pts"][0]) != len(case["pts"][0]):
        second = {"pts": [[c * 0.5 + 1.0 for c in q[:-1]] + [q[-1]] if homog else [c * 0.5 + 1.0 for c in q] for q in case["pts"]][::-1], "homog": homog}
    crv = None
    dom = case.get("dom")
    ctx.label("segment-on-another-interval-than-[0,1]", bool(dom))
    for rnd, poly in enumerate((case, second)):
        pts = _scaled_poly(case, poly["pts"])
        if crv is None:
            crv = _bezier_curve(p, pts, homog, dom)
        else:
            # second round on the SAME object: back to the original degree with other control points
            crv.degree = p
            crv.set_ctrlpts([list(q) for q in pts])
            crv.knotvector = [(dom or (0.0, 1.0))[0]] * (p + 1) + [(dom or (0.0, 1.0))[1]] * (p + 1)
        if case["read_views"]:
            _ = [list(q) for q in crv.ctrlpts]
            if homog:
                _ = list(crv.weights)
        twin = None
        if rnd == 0 and case["t"] % 2:
            # the operation is applied to a deep copy; the curve it was copied from keeps its degree, net and views
            import copy
            twin, crv = crv, copy.deepcopy(crv)
        crv.sample_size = 5
        pts_before = [list(q) for q in crv.evalpts]
        dom_before = tuple(crv.domain)
        operations.degree_operations(crv, [t])
        ctx.check(tuple(crv.domain) == dom_before, "curve-domain-changed", "degree_operations(+%d) changed the parameter interval of the segment from %r to %r" % (t, dom_before, tuple(crv.domain)))
        crv.sample_size = 5
        pts_after = [list(q) for q in crv.evalpts]
        bigc = max(abs(c) for q in pts_before for c in q) if pts_before else 1.0
        ctx.check(len(pts_before) == 5 and len(pts_after) == 5 and all(all(abs(x - y) <= 1e-9 * max(bigc, 1e-300) for x, y in zip(a_, b_)) for a_, b_ in zip(pts_before, pts_after)),
                  "curve-sampled-points-differ", "the 5 sampled points of the curve before and after degree_operations(+%d) differ: %r vs %r" % (t, pts_before[:2] + pts_before[-1:], pts_after[:2] + pts_after[-1:]))
        if twin is not None:
            tp = [list(q) for q in twin.ctrlpts]
            ok_t = twin.degree == p and len(tp) == p + 1 and (not homog or len(list(twin.weights)) == p + 1) and \
                [list(q) for q in (twin.ctrlptsw if homog else twin.ctrlpts)] == [list(q) for q in pts]
            ctx.check(ok_t, "curve-copy-source-changed", "after elevating a deep copy the source reports degree %r and %d control points (was %d, %d)" % (twin.degree, len(tp), p, p + 1))
        want = ref.bezier_elevate(pts, t)
        got = [list(q) for q in (crv.ctrlptsw if homog else crv.ctrlpts)]
        big = max(abs(c) for q in pts for c in q)
        ctx.check(crv.degree == p + t and len(got) == p + t + 1, "curve-elevated-count",
                  "degree_operations(+%d) on a Bezier curve of degree %d (round %d): degree %r, %d control points" % (t, p, rnd + 1, crv.degree, len(got)))
        for i, (g, w) in enumerate(zip(got, want)):
            ctx.check(len(g) == len(w) and all(abs(F(x) - y) <= F(1, 10 ** 9) * F(big) for x, y in zip(g, w)), "curve-elevated-point",
                      "degree_operations(+%d), round %d on the same curve object: control point %d is %r, exact elevation %r" % (t, rnd + 1, i, g, ref.fl(w)))
        if homog:
            P_, W_ = [list(q) for q in crv.ctrlpts], list(crv.weights)
            ok = len(P_) == len(got) and len(W_) == len(got) and all(
                abs(w_ - g[-1]) <= 1e-12 * abs(g[-1]) and all(abs(c * w_ - x) <= 1e-9 * big for c, x in zip(q, g[:-1])) for q, w_, g in zip(P_, W_, got))
            ctx.check(ok, "curve-views-after-elevation", "after degree_operations(+%d) ctrlpts (%d) * weights (%d) is not the stored homogeneous net (%d points)" % (t, len(P_), len(W_), len(got)))
        for _ in range(t):
            operations.degree_operations(crv, [-1])
        back = [list(q) for q in (crv.ctrlptsw if homog else crv.ctrlpts)]
        ctx.check(crv.degree == p and len(back) == p + 1, "curve-reduced-count", "after %d reductions: degree %r, %d control points" % (t, crv.degree, len(back)))
        for i, (g, w) in enumerate(zip(back, pts)):
            ctx.check(len(g) == len(w) and all(abs(x - y) <= 1e-7 * big for x, y in zip(g, w)), "curve-reduction-not-inverse",
                      "elevating by %d and reducing %d times (round %d): control point %d is %r, original %r" % (t, t, rnd + 1, i, g, w))


SUBCHECKS = [
    SubCheck("elevate", _elev_cases, check_elevate, quick=500, thorough=3000,
             rule="non-trivial = degree >= 3, or count >= 2, or homogeneous coordinates, or rows of points"),
    SubCheck("reduce", _reduce_cases, check_reduce, quick=500, thorough=3000,
             rule="non-trivial = reduction from degree >= 4, or homogeneous coordinates"),
    SubCheck("curve", _curve_cases, check_curve, quick=300, thorough=1500,
             rule="Bezier curve objects elevated / reduced through operations.degree_operations, twice on the same object with "
                  "different control points; non-trivial = degree >= 3, or count >= 2, or homogeneous"),
    SubCheck("reject", _reject_cases, check_reject, quick=200, thorough=800, shards_thorough=4,
             rule="every case offers a non-Bezier polygon or a non-positive count"),
]
