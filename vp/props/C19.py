"""C19 - equality of shapes is an equivalence that tracks the definition (DESIGN.md section 5, C19)."""
import copy

from hypothesis import strategies as st

from vp import gen, build
from vp.core import SubCheck

RULE = ("Cases: pairs (a, b) of generated curves/surfaces/volumes: b a deep copy of a, or a with exactly one component "
        "changed by >= 1e-5 (one control point coordinate, one weight with or without the weighted coordinates, one "
        "interior knot moved inside its neighbours, one degree with a valid redefinition), or a shape of another kind / "
        "rationality built from identical data; oracle = reflexivity, symmetry, != is the negation of ==, copies equal, "
        "any single change makes them unequal.")
ASSUMPTIONS = ["eq: changes are >= 1e-5 and 'equal' pairs are bit-identical, so the verdict is the same for every comparison tolerance <= 1e-6",
               "fine: the comparison tolerance is the documented 10**-precision ('number of decimal places', default 18); changes of >= 100 tolerances must be seen, nothing is asserted about changes below the tolerance"]

CHANGES = ["coordinate", "weight", "weight-only-w", "knot", "degree", "size", "kind", "rationality", "rationality-dim", "none", "degree-only", "moved", "scaled"]


@st.composite
def _cases(draw, tier):
    d = draw(gen.spline(max_p=4, max_extra=4, vol_max_p=2, vol_max_extra=2, unclamped="maybe", affine_range="maybe",
                        normalize="maybe"))
    return {"defn": d, "change": draw(st.sampled_from(CHANGES)), "idx": draw(st.integers(0, 10 ** 6)),
            "coord": draw(st.integers(0, 5)), "delta": draw(st.sampled_from([0.001, 0.0078125, 0.125, 1.0, -0.001, -0.25, 64.0, 1e-05, -1e-05])),
            "read": draw(st.booleans())}


def _variant(case):
    """Return (definition of b, description) or None when the change is not applicable to this shape."""
    d = copy.deepcopy(case["defn"])
    ch, idx = case["change"], case["idx"]
    if ch == "none":
        return d, "none"
    if ch == "coordinate":
        i = idx % len(d["P"])
        c = case["coord"] % d["dim"]
        d["P"][i][c] += case["delta"]
        return d, "control point %d coordinate %d moved by %r" % (i, c, case["delta"])
    if ch == "weight":
        if not d["rational"]:
            return None
        i = idx % len(d["W"])
        d["W"][i] = d["W"][i] + abs(case["delta"])
        return d, "weight %d increased by %r (ctrlpts unchanged)" % (i, abs(case["delta"]))
    if ch == "weight-only-w":
        # same homogeneous coordinates x*w, only the stored w differs
        if not d["rational"]:
            return None
        i = idx % len(d["W"])
        w0 = d["W"][i]
        w1 = w0 * 2.0
        d["P"][i] = [c * w0 / w1 for c in d["P"][i]]
        d["W"][i] = w1
        return d, "weight %d doubled with x*w kept" % i
    if ch == "knot":
        k = idx % len(d["kv"])
        kv = d["kv"][k]
        p, n = d["degree"][k], d["size"][k]
        inner = [j for j in range(p + 1, n)]
        if not inner:
            return None
        j = inner[(idx // 7) % len(inner)]
        lo, hi = kv[j - 1], kv[j + 1]
        for cand in ((kv[j] + hi) / 2.0, (lo + kv[j]) / 2.0):
            if lo <= cand <= hi and abs(cand - kv[j]) >= 1e-3 * (kv[-1] - kv[0]):
                kv[j] = cand
                return d, "knot %d of direction %d moved to %r" % (j, k, cand)
        return None
    if ch == "degree":
        # same control net, degree changed by one with a valid clamped knot vector
        k = idx % len(d["degree"])
        p, n = d["degree"][k], d["size"][k]
        q = p + 1 if n >= p + 2 else (p - 1 if p >= 2 else None)
        if q is None:
            return None
        a, b = d["kv"][k][p], d["kv"][k][n]
        m = n - q - 1
        d["degree"][k] = q
        d["kv"][k] = [a] * (q + 1) + [a + (b - a) * (i + 1) / (m + 1.0) for i in range(m)] + [b] * (q + 1)
        d["unclamped"] = False
        return d, "degree of direction %d changed %d -> %d" % (k, p, q)
    if ch == "size":
        # one more control point in one direction (curves only: keeps construction simple and valid)
        if d["kind"] != "curve":
            return None
        p, n = d["degree"][0], d["size"][0]
        d["P"].append([c + 1.0 for c in d["P"][-1]])
        if d["rational"]:
            d["W"].append(1.0)
        d["size"][0] = n + 1
        a, b = d["kv"][0][0], d["kv"][0][-1]
        m = n - p
        d["kv"][0] = [a] * (p + 1) + [a + (b - a) * (i + 1) / (m + 1.0) for i in range(m)] + [b] * (p + 1)
        d["unclamped"] = False
        return d, "one more control point"
    if ch == "rationality":
        if d["rational"]:
            d["rational"], d["W"] = False, None
        else:
            d["rational"], d["W"] = True, [1.0] * len(d["P"])
        return d, "same data, other rationality"
    if ch == "rationality-dim":
        # rational shape in dim-D vs non-rational shape in (dim+1)-D with the same stored coordinate tuples
        if not d["rational"] or d["kind"] == "curve" and d["dim"] >= 3 and False:
            return None
        if d["kind"] != "curve" or d["dim"] != 2:
            return None
        hom = build.homogeneous(d["P"], d["W"])
        d["rational"], d["W"], d["P"], d["dim"] = False, None, hom, 3
        return d, "non-rational 3-D curve whose points are the homogeneous tuples of the rational 2-D curve"
    if ch == "kind":
        # a surface whose first direction carries the curve's data (or a curve made from a surface's first row)
        if d["kind"] == "curve":
            if d["dim"] != 3:
                return None
            s = copy.deepcopy(d)
            s["kind"] = "surface"
            s["degree"] = [d["degree"][0], 1]
            s["size"] = [d["size"][0], 2]
            s["kv"] = [d["kv"][0], [d["kv"][0][0], d["kv"][0][0], d["kv"][0][-1], d["kv"][0][-1]]]
            s["P"] = [list(p) for p in d["P"] for _ in range(2)]
            if d["rational"]:
                s["W"] = [w for w in d["W"] for _ in range(2)]
            return s, "surface built from the curve's data"
        return None
    return None


def check_eq(case, ctx):
    d = case["defn"]
    handed = {}
    a = build.make(d, mode=["w", "pw", "wp"][case["idx"] % 3] if d["rational"] else "w", inputs=handed)
    if case["coord"] % 2:
        # the caller goes on using (overwrites) the lists it handed to the setters: the shape keeps its definition.
        # (Knot vector lists of shapes built with normalize_kv=False are stored as they are - observed, not asserted.)
        twin = copy.deepcopy(a)
        build.scribble(handed, knots=bool(d.get("normalize", True)))
        ctx.label("input-lists-overwritten-after-construction")
        ctx.check((a == twin) is True and build.snapshot(a) == build.snapshot(twin), "definition-follows-callers-lists",
                  "after the caller overwrote the lists it had passed to the setters the shape no longer equals the deep copy taken before")
    if case["coord"] % 3 == 1:
        # things done NEXT to the shape do not change it: a converted twin is edited, a knot vector is refused
        twin = copy.deepcopy(a)
        sfx_ = [""] if d["kind"] == "curve" else ["_u", "_v", "_w"][:len(d["degree"])]
        if not d["rational"]:
            from geomdl import convert
            conv = convert.bspline_to_nurbs(a)
            k_ = case["idx"] % len(sfx_)
            kvc = list(build.kvs_of(conv)[k_])
            p_, n_ = d["degree"][k_], d["size"][k_]
            if n_ > p_ + 1:
                kvc[p_ + 1] = (kvc[p_] + kvc[p_ + 1]) / 2.0
                setattr(conv, "knotvector" + sfx_[k_], kvc)
            conv.ctrlpts = [[c + 1.0 for c in q] for q in d["P"]]
            ctx.label("converted-twin-edited")
        if d["kind"] == "curve":
            from geomdl import operations
            pcs = operations.decompose_curve(a)
            lo_, hi_ = pcs[0].domain
            operations.insert_knot(pcs[0], [lo_ + 0.625 * (hi_ - lo_)], [1])
            pcs[0].degree = pcs[0].degree
            ctx.label("decomposed-piece-edited")
        if d["kind"] == "surface" and not d.get("unclamped"):
            from geomdl import operations
            pcs = operations.decompose_surface(a, decompose_dir=["u", "v", "uv"][case["idx"] % 3])
            pcs[0].ctrlpts = [[c + 1.0 for c in q] for q in pcs[0].ctrlpts]          # (also when the surface was a single patch in that direction)
            ctx.label("decomposed-piece-edited")
        k2 = (case["idx"] // 3) % len(sfx_)
        try:
            setattr(a, "knotvector" + sfx_[k2], [0.0] * len(d["kv"][k2]))          # no non-empty span: cannot be normalised
        except Exception:
            ctx.label("knot-vector-refused")
            ctx.check((a == twin) is True and build.snapshot(a) == build.snapshot(twin), "changed-by-a-refused-or-side-edit",
                      "after editing a converted twin / a refused knot vector the shape no longer equals the deep copy taken before")
        else:
            a = build.make(d, inputs=handed)          # (accepted: start again from a clean shape)
    if case["read"]:
        _ = a.evalpts if d["kind"] == "curve" else None
        if a.rational:
            _ = a.ctrlpts, a.weights
    ctx.check((a == a) is True, "not-reflexive", "a == a is False")
    ctx.check((a != a) is False, "ne-not-negation", "a != a is True")
    c = copy.deepcopy(a)
    ctx.check((a == c) is True and (c == a) is True, "deepcopy-unequal", "a deep copy compares unequal to its source")
    ctx.check((a != c) is False, "ne-not-negation", "a != deepcopy(a) is True")
    if case["change"] == "degree-only":
        # nothing but the degree of ONE direction is changed on a deep copy (the knot vectors are left as they are)
        b = copy.deepcopy(a)
        sfx1 = [""] if d["kind"] == "curve" else ["_u", "_v", "_w"][:len(d["degree"])]
        k1 = case["idx"] % len(sfx1)
        setattr(b, "degree" + sfx1[k1], d["degree"][k1] + 1)
        ctx.label("change:degree-only")
        ctx.nt(True, "single-change")
        ctx.check((a == b) is False and (b == a) is False, "change-not-detected",
                  "shapes differing only in the degree of direction %d (%d vs %d) compare equal" % (k1, d["degree"][k1], d["degree"][k1] + 1))
        return
    if case["change"] in ("moved", "scaled"):
        # the documented default of the transformations: "inplace: if False, operation applied to a copy of the object"
        from geomdl import operations
        ctx.label("change:" + case["change"])
        if case["change"] == "moved":
            vec = [0.0] * d["dim"]
            vec[case["coord"] % d["dim"]] = case["delta"]
            b = operations.translate(a, vec)
            desc = "translated by %r" % (vec,)
        else:
            if not any(x != 0.0 for q in d["P"] for x in q):
                ctx.label("change-not-applicable")
                return
            mult = [2.0, 0.5, -1.0, 1.5][case["idx"] % 4]
            b = operations.scale(a, mult)
            desc = "scaled by %r" % mult
        ctx.nt(True, "single-change")
        ctx.check((a == c) is True and (c == a) is True and build.snapshot(a) == build.snapshot(c), "transform-changed-source",
                  "after the shape was %s (no inplace) it no longer equals the deep copy taken before: sizes %r, before %r" % (desc, build.sizes_of(a), build.sizes_of(c)))
        ctx.check((a == b) is False and (b == a) is False, "change-not-detected", "a shape and the same shape %s compare equal" % desc)
        ctx.check((a != b) is True, "ne-not-negation", "!= is not the negation of == (%s)" % desc)
        return
    v = _variant(case)
    ctx.label("change:" + case["change"])
    ctx.label("kind:" + d["kind"])
    if v is None:
        ctx.label("change-not-applicable")
        return
    dv, desc = v
    b = build.make(dv)
    if case["change"] == "weight" and case["idx"] % 2:
        # the same change made on a deep copy through the read / edit in place / write back idiom
        b = copy.deepcopy(a)
        w = b.weights
        for j, x in enumerate(dv["W"]):
            w[j] = x
        b.weights = w
        if case["idx"] % 4 == 1:
            b.ctrlpts = [list(q) for q in dv["P"]]          # the (unchanged) unweighted points are assigned after the new weights
        desc += " (edited in place on a deep copy)"
    elif case["change"] in ("degree", "knot", "coordinate") and case["idx"] % 2 and case.get("oncopy", True):
        # the same change made on a deep copy through the documented setters; the source must not follow the copy
        b = copy.deepcopy(a)
        sfx = [""] if d["kind"] == "curve" else ["_u", "_v", "_w"][:len(d["degree"])]
        if case["change"] == "coordinate" and d["kind"] == "surface" and case["idx"] % 4 == 3:
            # the 2-D view is read, one entry replaced, and the same array assigned back
            g2 = b.ctrlpts2d
            new = build.homogeneous(dv["P"], dv["W"]) if d["rational"] else dv["P"]
            nv_ = d["size"][1]
            for j, q in enumerate(new):
                if list(g2[j // nv_][j % nv_]) != list(q):
                    g2[j // nv_][j % nv_] = list(q)
            b.ctrlpts2d = g2
            ctx.label("change-made-through-ctrlpts2d")
        elif case["change"] == "coordinate":
            P = b.ctrlpts
            for j, q in enumerate(dv["P"]):
                P[j] = list(q)
            b.ctrlpts = P
        else:
            for k, sx in enumerate(sfx):
                if dv["degree"][k] != d["degree"][k]:
                    setattr(b, "degree" + sx, dv["degree"][k])
                if dv["kv"][k] != d["kv"][k]:
                    setattr(b, "knotvector" + sx, list(dv["kv"][k]))
        desc += " (made on a deep copy through the setters)"
        ctx.label("change-made-on-deep-copy")
        ctx.check(build.degrees_of(a) == d["degree"] and build.snapshot(a) == build.snapshot(build.make(d)), "copy-edit-changed-source",
                  "editing a deep copy changed its source (%s): degrees %r" % (desc, build.degrees_of(a)))
        ctx.check(build.snapshot(b) == build.snapshot(build.make(dv)), "copy-edit-wrong", "the edited deep copy is not the intended variant (%s)" % desc)
    ab, ba = (a == b), (b == a)
    ctx.check(ab == ba, "not-symmetric", "a == b is %r but b == a is %r (%s)" % (ab, ba, desc))
    ctx.check((a != b) == (not ab) and (b != a) == (not ba), "ne-not-negation", "!= is not the negation of == (%s)" % desc)
    if case["change"] == "none":
        ctx.check(ab is True, "equal-definitions-unequal", "two shapes built from identical data compare unequal")
        ctx.nt(True, "identical-rebuild")
    else:
        ctx.check(ab is False and ba is False, "change-not-detected", "shapes differing by [%s] compare equal" % desc)
        ctx.nt(True, "single-change")
    # comparison with foreign objects is False, never an exception
    ctx.check((a == 1) is False and (a == "x") is False and (a == None) is False, "foreign-equal", "shape equals a non-shape")  # noqa: E711


# ------------------------------------------------------------------------------------------------ small changes
@st.composite
def _fine_cases(draw, tier):
    what = draw(st.sampled_from(["knot", "knot", "coordinate", "weight", "translate"]))
    if what == "knot" and draw(st.integers(0, 2)) == 0:
        # a shape kept in its own parameter range with few distinct interior knot values (repeated knots are likely)
        d = draw(gen.spline(max_p=3, max_extra=4, vol_max_p=2, vol_max_extra=2, affine_range="maybe", normalize=False, kv_style="coarse"))
    else:
        d = draw(gen.spline(max_p=3, max_extra=3, vol_max_p=2, vol_max_extra=2, unclamped="maybe", affine_range="maybe",
                            normalize="maybe"))
    return {"defn": d, "what": what, "idx": draw(st.integers(0, 10 ** 6)),
            "coord": draw(st.integers(0, 5)), "precision": draw(st.sampled_from([18, 18, 18, 16, 14, 12, 9, 6])),
            "factor": draw(st.sampled_from([100.0, 1000.0, 4096.0, 1048576.0])), "sign": draw(st.sampled_from([1, -1])),
            "route": draw(st.sampled_from(["copy", "rebuild"])), "scale_exp": draw(st.sampled_from([0, 0, 12, 20]))}


def _bump(x, step, sign, tol):
    """x moved by about `step` (at least 50 tolerances, at least a few units in the last place)."""
    import math
    y = x + sign * step
    if abs(y - x) < 50 * tol:
        y = x
        for _ in range(8):
            y = math.nextafter(y, math.inf if sign > 0 else -math.inf)
    return y if abs(y - x) >= 50 * tol else None


def check_fine(case, ctx):
    """The comparison tolerance is the documented one (10**-precision, 'number of decimal places'): a change of one
    component by 100 tolerances or more - far below anything a drawing would show - still makes the shapes unequal."""
    d = case["defn"]
    if case.get("scale_exp"):
        # model units can be large: the tolerance stays the absolute 10**-precision
        d = dict(d)
        d["P"] = [[c * 2.0 ** case["scale_exp"] for c in q] for q in d["P"]]
        ctx.label("coordinates-of-large-magnitude")
    pr = case["precision"]
    tol = 10.0 ** -pr
    a = build.make(d, precision=pr)
    b = copy.deepcopy(a) if case["route"] == "copy" else build.make(d, precision=pr)
    ctx.check((a == b) is True and (b == a) is True, "equal-definitions-unequal", "two shapes with identical definitions (precision=%d) compare unequal" % pr)
    step = case["factor"] * tol
    idx = case["idx"]
    sfx = [""] if d["kind"] == "curve" else ["_u", "_v", "_w"][:len(d["degree"])]
    if case["what"] == "knot":
        k = idx % len(sfx)
        kv = build.kvs_of(a)[k]
        p, n = d["degree"][k], d["size"][k]
        inner = list(range(p + 1, n))
        if not inner:
            ctx.label("no-interior-knot")
            return
        j = inner[(idx // 7) % len(inner)]
        rep = [i for i in inner if kv[i - 1] == kv[i] and kv[i + 1] > kv[i]]
        signs = (case["sign"], -case["sign"])
        if rep and idx % 4:
            j = rep[(idx // 7) % len(rep)]          # the upper copy of a repeated knot is moved (up, if there is room) away from its twin
            signs = (1, -1)
            ctx.label("copy-of-a-repeated-knot-moved")
        new = None
        for sg in signs:
            y = _bump(kv[j], step, sg, tol)
            if y is not None and kv[j - 1] <= y <= kv[j + 1] and (j - 1 > 0 or y > kv[0]) and (j + 1 < len(kv) - 1 or y < kv[-1]):
                new = y
                break
        if new is None:
            ctx.label("no-room-for-the-change")
            return
        nkv = list(kv)
        nkv[j] = new
        setattr(b, "knotvector" + sfx[k], nkv)
        desc = "knot %d of direction %d moved from %r to %r" % (j, k, kv[j], new)
        size = abs(new - kv[j])
    elif case["what"] == "translate":
        # a copy moved by a very small vector (operations.translate without inplace) is another shape
        from geomdl import operations
        c = case["coord"] % d["dim"]
        vec = [0.0] * d["dim"]
        vec[c] = case["sign"] * step
        ws = list(a.weights) if d["rational"] else [1.0] * len(d["P"])
        # change of the stored component, computed here from the unweighted points the shape reports
        size = max(abs((q[c] + vec[c]) * w - s_[c]) for q, w, s_ in zip([list(q) for q in a.ctrlpts], ws, build.stored_points(a)))
        if size < 200 * tol:
            ctx.label("no-room-for-the-change")
            return
        b = operations.translate(b, vec)
        desc = "translated by %r" % (vec,)
    else:
        pts = build.stored_points(a)
        i = idx % len(pts)
        if case["what"] == "weight":
            if not d["rational"]:
                ctx.label("change-not-applicable")
                return
            c = len(pts[i]) - 1
        else:
            c = case["coord"] % d["dim"]
        y = _bump(pts[i][c], step, case["sign"], tol)
        if y is None or (case["what"] == "weight" and y <= 0):
            ctx.label("no-room-for-the-change")
            return
        size = abs(y - pts[i][c])
        desc = "stored control point %d component %d moved from %r to %r" % (i, c, pts[i][c], y)
        pts[i][c] = y
        b.set_ctrlpts(pts, *build.sizes_of(a))
    ctx.label("precision:%d" % pr)
    ctx.label("change:" + case["what"])
    ctx.label("change-below-1e-9", size < 1e-9)
    ctx.nt(True, "small-single-change")
    ab, ba = (a == b), (b == a)
    ctx.check(ab == ba, "not-symmetric", "a == b is %r but b == a is %r (%s)" % (ab, ba, desc))
    ctx.check(ab is False and ba is False, "small-change-not-detected",
              "shapes with precision=%d (comparison tolerance %g) differing by [%s] (%g = %.0f tolerances) compare equal" % (pr, tol, desc, size, size / tol))
    ctx.check((a != b) == (not ab), "ne-not-negation", "!= is not the negation of == (%s)" % desc)


SUBCHECKS = [
    SubCheck("eq", _cases, check_eq, quick=700, thorough=4000, shards_quick=2,
             rule="non-trivial = pair differing in exactly one component (counted per kind of change) or an identical rebuild; "
                  "not-applicable changes are labelled and not counted"),
    SubCheck("fine", _fine_cases, check_fine, quick=500, thorough=3000,
             rule="shapes built with precision 6..18; non-trivial = pair differing in exactly one stored knot / coordinate / weight by "
                  "100 .. 10^6 comparison tolerances (10**-precision), at least a few units in the last place"),
]
