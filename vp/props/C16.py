"""C16 - linear-algebra routines satisfy their defining equations on every call (DESIGN.md section 5, C16)."""
import math
from fractions import Fraction as F

from hypothesis import strategies as st

from geomdl import linalg

from vp import ref
from vp.core import SubCheck, Skip

RULE = ("Cases: matrices of size 1..8 with dyadic entries |a| <= 8 built by construction as non-singular (product of unit "
        "lower, non-zero diagonal upper and permutation factors), strictly diagonally dominant matrices, matrices that need "
        "row swaps, spline collocation matrices; right-hand sides n x 1..3; histories of calls sharing the memoised state; "
        "oracle = exact rational arithmetic with the standard LU backward-error bound.")
ASSUMPTIONS = ["residual bound |b - A x|_i <= 1e3 * 3n * 2^-53 * (|L||U||x|)_i with L, U the exact factors of the matrix that was factored",
               "exceptions on singular or un-pivotable systems are allowed ('whenever ... return a result')"]

EPS = F(1, 2 ** 53)
SLUG_LU = "C16-lu_solve-unpivoted-zero-pivot"


# ------------------------------------------------------------------------------------------------ generators
@st.composite
def _dy(draw, lim=64, den=8.0):
    return draw(st.integers(-lim, lim)) / den


@st.composite
def matrix_nonsingular(draw, n):
    """A = P * L * U with unit lower L, upper U with non-zero diagonal, P a permutation: non-singular by construction."""
    L = [[1.0 if i == j else (draw(st.integers(-4, 4)) / 2.0 if j < i else 0.0) for j in range(n)] for i in range(n)]
    U = [[(draw(st.sampled_from([-2.0, -1.0, -0.5, 0.5, 1.0, 2.0, 3.0])) if i == j else (draw(st.integers(-4, 4)) / 2.0 if j > i else 0.0))
          for j in range(n)] for i in range(n)]
    perm = draw(st.permutations(list(range(n))))
    A = [[sum(L[i][k] * U[k][j] for k in range(n)) for j in range(n)] for i in range(n)]
    return [A[perm[i]] for i in range(n)]


@st.composite
def matrix_sdd(draw, n):
    A = [[draw(st.integers(-8, 8)) / 8.0 for _ in range(n)] for _ in range(n)]
    for i in range(n):
        s = sum(abs(A[i][j]) for j in range(n) if j != i)
        A[i][i] = (s + draw(st.integers(1, 16)) / 8.0) * draw(st.sampled_from([1.0, -1.0]))
    return A


@st.composite
def matrix_collocation(draw, n):
    """Interpolation matrix N_j(u_k) for generated parameters and the averaged knot vector (totally positive, banded)."""
    p = draw(st.integers(1, min(5, n - 1))) if n > 1 else 1
    if n == 1:
        return [[1.0]]
    steps = [draw(st.integers(1, 16)) for _ in range(n - 1)]
    tot = float(sum(steps))
    uk = [0.0]
    for s in steps:
        uk.append(uk[-1] + s / tot)
    uk[-1] = 1.0
    kv = [0.0] * (p + 1) + [sum(uk[i + 1:i + p + 1]) / p for i in range(n - p - 1)] + [1.0] * (p + 1)
    return [ref.fbasis_all(p, kv, n, u) for u in uk]


@st.composite
def _system(draw, tier):
    n = draw(st.integers(1, 8))
    cls = draw(st.sampled_from(["plu", "plu", "sdd", "collocation", "swap"]))
    if cls == "plu":
        A = draw(matrix_nonsingular(n))
    elif cls == "sdd":
        A = draw(matrix_sdd(n))
    elif cls == "collocation":
        A = draw(matrix_collocation(n))
    else:
        A = draw(matrix_nonsingular(n))
        if n >= 2:
            # force a zero (or small) leading entry so that a row swap is needed
            A[0][0] = draw(st.sampled_from([0.0, 0.0, 0.125]))
    m = draw(st.integers(1, 3))
    B = [[draw(st.integers(-32, 32)) / 8.0 for _ in range(m)] for _ in range(n)]
    if draw(st.integers(0, 7)) == 0:
        zc = draw(st.integers(0, m - 1))          # a right-hand side column of zeros (planar data, a homogeneous system)
        for r_ in B:
            r_[zc] = 0.0
    # exact power-of-two scaling of the whole system: the property quantifies over float matrices of any magnitude
    ea = draw(st.sampled_from([0, 0, 0, -10, 10, -24, -30, -40, 30, -60]))
    eb = draw(st.sampled_from([0, 0, -20, 20, ea]))
    if ea:
        A = [[x * 2.0 ** ea for x in r] for r in A]
    if eb:
        B = [[x * 2.0 ** eb for x in r] for r in B]
    if not ea and cls != "collocation" and draw(st.integers(0, 3)) == 0:
        # integer entries are numbers too: some rows (scaled by 8, which keeps the class) hold Python ints, the others floats
        mask = draw(st.lists(st.booleans(), min_size=n, max_size=n))
        if draw(st.booleans()):
            mask[0] = True
        A = [[int(x * 8) for x in r] if mk and all(float(x * 8).is_integer() for x in r) else r for r, mk in zip(A, mask)]
    return {"A": A, "B": B, "cls": cls, "scale": [ea, eb]}


# ------------------------------------------------------------------------------------------------ exact helpers
def exact_lu(A):
    """Doolittle without pivoting in Fractions. Returns (L, U) or None when a zero pivot is met."""
    n = len(A)
    A = [[F(x) for x in r] for r in A]
    L = [[F(0)] * n for _ in range(n)]
    U = [[F(0)] * n for _ in range(n)]
    for i in range(n):
        for k in range(i, n):
            U[i][k] = A[i][k] - sum(L[i][j] * U[j][k] for j in range(i))
        if U[i][i] == 0:
            return None
        L[i][i] = F(1)
        for k in range(i + 1, n):
            L[k][i] = (A[k][i] - sum(L[k][j] * U[j][i] for j in range(i))) / U[i][i]
    return L, U


def absLU(L, U):
    n = len(L)
    return [[sum(abs(L[i][k]) * abs(U[k][j]) for k in range(n)) for j in range(n)] for i in range(n)]


def residual_ok(ctx, tag, what, M, X, B, LU):
    """|B - M X| within the backward-error bound of an LU solve of M (exact factors LU)."""
    n = len(M)
    G = absLU(*LU)
    for c in range(len(B[0])):
        x = [F(X[i][c]) for i in range(n)]
        for i in range(n):
            r = F(B[i][c]) - sum(F(M[i][j]) * x[j] for j in range(n))
            bound = 1000 * 3 * n * EPS * (sum(G[i][j] * abs(x[j]) for j in range(n)) + abs(F(B[i][c]))) + F(1, 10 ** 300)
            ctx.check(abs(r) <= bound, tag, "%s: residual %r in row %d column %d exceeds the bound %r (A=%r, b column=%r, x=%r)" % (
                what, float(r), i, c, float(bound), M, [B[k][c] for k in range(n)], [X[k][c] for k in range(n)]))


def generic_residual(ctx, tag, what, A, X, B):
    """Returned result of a solve whose factorisation met a zero pivot: it must still satisfy A X = B (1e-6 relative)."""
    n = len(A)
    if not is_finite_matrix(X) or len(X) != n:
        ctx.fail(tag, "%s returned %r for the non-singular matrix %r" % (what, X, A))
        return
    for c in range(len(B[0])):
        for i in range(n):
            r = F(B[i][c]) - sum(F(A[i][j]) * F(X[j][c]) for j in range(n))
            lim = F(1, 10 ** 6) * (sum(abs(F(A[i][j])) * abs(F(X[j][c])) for j in range(n)) + abs(F(B[i][c])) + F(1, 10 ** 300))
            ctx.check(abs(r) <= lim, tag, "%s returned a result with A x - b = %r in row %d (A=%r, b=%r, x=%r)" % (
                what, float(-r), i, A, [B[k][c] for k in range(n)], [X[k][c] for k in range(n)]))


def is_finite_matrix(X):
    try:
        return all(math.isfinite(v) for r in X for v in r)
    except TypeError:
        return False


def check_permutation(ctx, A, mp, p, sign=None):
    n = len(A)
    ctx.check(len(p) == n and all(len(r) == n for r in p), "pivot-shape", "permutation matrix has shape %r" % ([len(r) for r in p],))
    ctx.check(all(v in (0.0, 1.0) for r in p for v in r) and all(sum(r) == 1.0 for r in p) and
              all(sum(p[i][j] for i in range(n)) == 1.0 for j in range(n)), "pivot-not-permutation",
              "matrix_pivot returned P = %r, not a permutation matrix" % (p,))
    PM = [[sum(p[i][k] * A[k][j] for k in range(n)) for j in range(n)] for i in range(n)]
    ctx.check([list(map(float, r)) for r in mp] == [list(map(float, r)) for r in PM], "pivot-product",
              "matrix_pivot: returned matrix %r is not P*M = %r" % (mp, PM))
    if sign is not None:
        perm = [r.index(1.0) for r in p]
        inv = sum(1 for i in range(n) for j in range(i + 1, n) if perm[i] > perm[j])
        ctx.check(sign == (-1.0) ** inv, "pivot-sign", "matrix_pivot sign %r, det(P) = %r" % (sign, (-1.0) ** inv))


# ------------------------------------------------------------------------------------------------ single calls
def _run_call(ctx, name, A, B, label=""):
    """Perform one library call and check its defining equation. Returns a short result tag."""
    n = len(A)
    keepA = [list(r) for r in A]
    keepB = [list(r) for r in B]
    D = ref.mat_det(A)
    if name in ("lu_factor", "inverse", "determinant"):
        try:
            {"lu_factor": lambda: linalg.lu_factor(A, B), "inverse": lambda: linalg.matrix_inverse(A),
             "determinant": lambda: linalg.matrix_determinant(A)}[name]()
        except ZeroDivisionError:
            # 'whenever ... return a result': raising is not a violation of the property
            ctx.label("raised:" + name)
            return "raised"
    if name == "pivot":
        mp, p, sg = linalg.matrix_pivot(A, sign=True)
        check_permutation(ctx, A, mp, p, sg)
        mp2, p2 = linalg.matrix_pivot(A)
        ctx.check(mp2 == mp and p2 == p, "pivot-inconsistent", "matrix_pivot with and without sign disagree")
        # the returned matrices belong to the caller: overwriting them does not change what later calls return
        keep_mp, keep_p = [list(r) for r in mp], [list(r) for r in p]
        for M in (mp, p, mp2, p2):
            for r in M:
                for j in range(len(r)):
                    r[j] = 7.5
        mp3, p3 = linalg.matrix_pivot(A)
        ctx.check(mp3 == keep_mp and p3 == keep_p, "pivot-depends-on-earlier-result",
                  "matrix_pivot called again after the caller overwrote the earlier results returns P = %r, first time %r" % (p3, keep_p))
    elif name == "lu_solve":
        LU = exact_lu(A)
        ctx.exclude_if(SLUG_LU, LU is None)
        try:
            X = linalg.lu_solve(A, B)
        except ZeroDivisionError:
            ctx.check(LU is None, "lu_solve-not-total", "lu_solve raised ZeroDivisionError although elimination without pivoting meets no zero pivot (A=%r)" % (A,))
            return "raised"
        if D == 0:
            return "singular"
        if LU is None:
            # unpivoted elimination meets a zero pivot: the routine cannot succeed; returning a finite answer here is the
            # recorded finding class; outside the class this point is unreachable
            if is_finite_matrix(X):
                for c in range(len(B[0])):
                    for i in range(n):
                        r = F(B[i][c]) - sum(F(A[i][j]) * F(X[j][c]) for j in range(n))
                        lim = F(1, 10 ** 6) * (sum(abs(F(A[i][j])) * abs(F(X[j][c])) for j in range(n)) + abs(F(B[i][c])) + F(1, 10 ** 300))
                        ctx.check(abs(r) <= lim, "lu_solve-wrong-answer",
                                  "lu_solve returned x=%r with A x - b = %r in row %d for a non-singular system whose unpivoted "
                                  "elimination meets a zero pivot (A=%r, b=%r)" % ([X[k][c] for k in range(n)], float(-r), i, A, [B[k][c] for k in range(n)]))
            return "zero-pivot"
        ctx.check(is_finite_matrix(X), "lu_solve-nonfinite", "lu_solve returned non-finite values %r" % (X,))
        residual_ok(ctx, "lu_solve-residual", "lu_solve" + label, A, X, B, LU)
    elif name == "lu_factor":
        if D == 0:
            raise Skip("singular")
        X = linalg.lu_factor(A, B)
        mp, p = linalg.matrix_pivot(A)
        check_permutation(ctx, A, mp, p)
        LU = exact_lu(mp)
        if LU is None:
            # the library's pivoting left a zero pivot: the property only demands that a RETURNED result is right
            ctx.label("zero-pivot-after-pivoting")
            generic_residual(ctx, "lu_factor-wrong-answer", "lu_factor", A, X, B)
            return "zero-pivot"
        ctx.check(is_finite_matrix(X), "lu_factor-nonfinite", "lu_factor returned non-finite values %r for non-singular A=%r" % (X, A))
        PB = [[sum(p[i][k] * B[k][c] for k in range(n)) for c in range(len(B[0]))] for i in range(n)]
        residual_ok(ctx, "lu_factor-residual", "lu_factor" + label, mp, X, PB, LU)
    elif name == "inverse":
        if D == 0:
            raise Skip("singular")
        X = linalg.matrix_inverse(A)
        mp, p = linalg.matrix_pivot(A)
        LU = exact_lu(mp)
        if LU is None:
            ctx.label("zero-pivot-after-pivoting")
            generic_residual(ctx, "inverse-wrong-answer", "matrix_inverse", A, X, [[1.0 if i == j else 0.0 for j in range(n)] for i in range(n)])
            return "zero-pivot"
        ctx.check(len(X) == n and all(len(r) == n for r in X) and is_finite_matrix(X), "inverse-shape", "matrix_inverse returned %r" % (X,))
        residual_ok(ctx, "inverse-residual", "matrix_inverse (A * A^-1 = I)" + label, mp, X, p, LU)
    elif name == "determinant":
        d = linalg.matrix_determinant(A)
        mp, p = linalg.matrix_pivot(A)
        LU = exact_lu(mp)
        if D != 0:
            if LU is None:
                ctx.label("zero-pivot-after-pivoting")
                ctx.check(abs(F(d) - D) <= abs(D) * F(1, 10 ** 6), "determinant-wrong", "matrix_determinant(%r) = %r, Leibniz determinant %r" % (A, d, float(D)))
                return "zero-pivot"
            G = absLU(*LU)
            rel = 1000 * n * EPS * sum(G[i][i] / abs(LU[1][i][i]) for i in range(n)) + 64 * EPS
            ctx.check(abs(F(d) - D) <= abs(D) * rel, "determinant-wrong", "matrix_determinant(%r) = %r, Leibniz determinant %r" % (A, d, float(D)))
        else:
            had = 1.0
            for r in A:
                had *= max(1e-300, math.sqrt(sum(x * x for x in r)))
            ctx.check(abs(d) <= 1e-9 * had, "determinant-wrong", "matrix_determinant of a singular matrix %r = %r" % (A, d))
    ctx.check(A == keepA and B == keepB, "input-modified", "%s modified its input" % name)
    ident = linalg.matrix_identity(n)
    ctx.check(ident == [[1.0 if i == j else 0.0 for j in range(n)] for i in range(n)], "identity-corrupted",
              "after %s on a %dx%d matrix, matrix_identity(%d) = %r" % (name, n, n, n, ident))
    return "ok"


def check_single(case, ctx):
    A, B = case["A"], case["B"]
    n = len(A)
    ctx.label("class:" + case["cls"])
    ctx.label("scaled-matrix", bool(case.get("scale", [0, 0])[0]))
    ctx.label("rows-of-python-ints", any(all(isinstance(x, int) for x in r) for r in A))
    swap = n >= 2 and max(range(n), key=lambda i: abs(A[i][0])) != 0
    ctx.nt(swap, "row-swap-needed")
    ctx.nt(n >= 4, "n>=4")
    D = ref.mat_det(A)
    ctx.label("singular", D == 0)
    for name in ("pivot", "determinant", "inverse", "lu_factor", "lu_solve"):
        try:
            _run_call(ctx, name, A, B)
        except Skip:
            pass
    if case["cls"] in ("sdd", "collocation"):
        # totality: the plain LU solver must return a result
        X = linalg.lu_solve(A, B)
        ctx.check(is_finite_matrix(X), "lu_solve-not-total", "lu_solve returned %r on a %s matrix" % (X, case["cls"]))
    if case["cls"] == "sdd" and D != 0:
        # answers do not depend on earlier calls: the same list object, edited in place, is solved again
        work = [[x * 2.0 for x in r] for r in A]          # a matrix the library has not seen yet (still diagonally dominant)
        X1 = linalg.lu_solve(work, B)
        residual_ok(ctx, "lu_solve-residual", "lu_solve on twice the matrix", work, X1, B, exact_lu(work))
        for j in range(n):
            work[0][j] = work[0][j] * 2.0
        work[n - 1][n - 1] = work[n - 1][n - 1] * 4.0          # still strictly diagonally dominant
        X2 = linalg.lu_solve(work, B)
        LU2 = exact_lu(work)
        ctx.check(is_finite_matrix(X2) and LU2 is not None, "lu_solve-not-total", "lu_solve failed on an edited diagonally dominant matrix")
        residual_ok(ctx, "lu_solve-after-inplace-edit", "lu_solve on a matrix object that was edited in place after an earlier solve", work, X2, B, LU2)
        inv2 = linalg.matrix_inverse(work)
        mp2, p2 = linalg.matrix_pivot(work)
        LUp = exact_lu(mp2)
        if LUp is not None:
            residual_ok(ctx, "inverse-after-inplace-edit", "matrix_inverse after an in-place edit", mp2, inv2, p2, LUp)


# ------------------------------------------------------------------------------------------------ histories
@st.composite
def _history(draw, tier):
    k = draw(st.integers(2, 8 if tier == "thorough" else 5))
    calls = []
    for _ in range(k):
        s = draw(_system(tier))
        s["call"] = draw(st.sampled_from(["pivot", "determinant", "inverse", "lu_factor", "lu_solve", "pivot", "identity"]))
        calls.append(s)
    # encourage several calls on the same size
    if draw(st.booleans()):
        n0 = len(calls[0]["A"])
        for c in calls[1:]:
            if len(c["A"]) != n0 and draw(st.booleans()):
                c["A"] = draw(matrix_nonsingular(n0))
                c["B"] = [[draw(st.integers(-32, 32)) / 8.0] for _ in range(n0)]
                c["cls"] = "plu"
    return {"calls": calls}


def check_history(case, ctx):
    sizes = {}
    for i, c in enumerate(case["calls"]):
        n = len(c["A"])
        sizes.setdefault(n, set()).add(c["call"])
        if c["call"] == "identity":
            ident = linalg.matrix_identity(n)
            ctx.check(ident == [[1.0 if a == b else 0.0 for b in range(n)] for a in range(n)], "identity-corrupted",
                      "call %d: matrix_identity(%d) = %r" % (i, n, ident))
            continue
        try:
            _run_call(ctx, c["call"], c["A"], c["B"], label=" (call %d of a history %r)" % (i, [x["call"] for x in case["calls"]]))
        except Skip:
            pass
    ctx.nt(any(len(v) >= 2 for v in sizes.values()), ">=2-kinds-of-calls-on-one-size")
    ctx.nt(any(len(c["A"]) >= 2 and max(range(len(c["A"])), key=lambda r: abs(c["A"][r][0])) != 0 for c in case["calls"]), "row-swap-needed")


# ------------------------------------------------------------------------------------------------ helpers
@st.composite
def _triangular(draw):
    """a general lower-triangular system (non-zero diagonal, not necessarily unit) and a right-hand side"""
    n = draw(st.integers(1, 5))
    nz = st.integers(1, 16).flatmap(lambda m: st.sampled_from([m / 4.0, -m / 4.0]))
    L = [[(draw(nz) if j == i else draw(st.integers(-16, 16)) / 4.0) if j <= i else 0.0 for j in range(n)] for i in range(n)]
    return {"L": L, "b": [draw(st.integers(-32, 32)) / 4.0 for _ in range(n)]}


@st.composite
def _helper_cases(draw, tier):
    dim = draw(st.integers(2, 3))
    v = lambda: [draw(st.integers(-64, 64)) / 8.0 for _ in range(dim)]  # noqa: E731
    n, m, k = draw(st.integers(1, 4)), draw(st.integers(1, 4)), draw(st.integers(1, 4))
    return {"a": v(), "b": v(), "c": draw(st.integers(-32, 32)) / 8.0,
            "M1": [[draw(st.integers(-16, 16)) / 4.0 for _ in range(m)] for _ in range(n)],
            "M2": [[draw(st.integers(-16, 16)) / 4.0 for _ in range(k)] for _ in range(m)],
            "vec": [draw(st.integers(-16, 16)) / 4.0 for _ in range(m)],
            "tri": draw(_triangular()), "lin_dec": draw(st.sampled_from([6, 4, 3, 2])),
            "mexp": draw(st.sampled_from([0, 0, 0, -30, -30, 40])), "lin_far": draw(st.sampled_from([0.0, 0.0, 0.0, 2.0 ** 27, -2.0 ** 30, 1000.0])),
            "k": draw(st.integers(0, 40)), "i": draw(st.integers(0, 44)), "vexp": draw(st.sampled_from([0, 0, 0, -66, -40, 40])),
            "lin": [draw(st.integers(-64, 64)) / 8.0, draw(st.integers(1, 64)) / 8.0 * draw(st.sampled_from([1.0, 1.0, -1.0])), draw(st.integers(2, 40))]}


def check_helpers(case, ctx):
    a, b, c = case["a"], case["b"], case["c"]
    if case.get("vexp"):
        # vectors of very small / large magnitude (exact power-of-two scaling): the definitions are scale-free
        a, b = [x * 2.0 ** case["vexp"] for x in a], [x * 2.0 ** case["vexp"] for x in b]
        ctx.label("tiny-or-huge-vectors")
    Fa, Fb = [F(x) for x in a], [F(x) for x in b]
    unit = 2.0 ** case.get("vexp", 0)
    ctx.nt(len(a) == 3, "3-D")
    ctx.nt(case["i"] > case["k"] or case["k"] >= 23, "binomial-edge")
    dot = linalg.vector_dot(a, b)
    ctx.check(F(dot) == sum(x * y for x, y in zip(Fa, Fb)), "vector_dot", "vector_dot(%r, %r) = %r" % (a, b, dot))
    cr = linalg.vector_cross(a, b)
    A3, B3 = Fa + [F(0)] * (3 - len(a)), Fb + [F(0)] * (3 - len(b))
    want = [A3[1] * B3[2] - A3[2] * B3[1], A3[2] * B3[0] - A3[0] * B3[2], A3[0] * B3[1] - A3[1] * B3[0]]
    ctx.check(len(cr) == 3 and all(F(x) == y for x, y in zip(cr, want)), "vector_cross", "vector_cross(%r, %r) = %r, expected %r" % (a, b, cr, ref.fl(want)))
    if len(a) == 3:
        # each operand may have 2 or 3 elements (a 2-element vector lies in the xy-plane)
        cr2 = linalg.vector_cross(a, b[:2])
        want2 = [-A3[2] * B3[1], A3[2] * B3[0], A3[0] * B3[1] - A3[1] * B3[0]]
        ctx.check(len(cr2) == 3 and all(F(x) == y for x, y in zip(cr2, want2)), "vector_cross", "vector_cross(%r, %r) = %r, expected %r" % (a, b[:2], cr2, ref.fl(want2)))
        cr3 = linalg.vector_cross(a[:2], b)
        want3 = [A3[1] * B3[2], -A3[0] * B3[2], A3[0] * B3[1] - A3[1] * B3[0]]
        ctx.check(len(cr3) == 3 and all(F(x) == y for x, y in zip(cr3, want3)), "vector_cross", "vector_cross(%r, %r) = %r, expected %r" % (a[:2], b, cr3, ref.fl(want3)))
    mag = linalg.vector_magnitude(a)
    ctx.check(abs(mag - ref.fsqrt(sum(x * x for x in Fa))) <= 1e-12 * (unit + mag), "vector_magnitude", "vector_magnitude(%r) = %r" % (a, mag))
    if any(a):
        un = linalg.vector_normalize(a)
        ctx.check(abs(math.sqrt(sum(x * x for x in un)) - 1.0) <= 1e-12, "vector_normalize-unit", "vector_normalize(%r) = %r is not a unit vector" % (a, un))
        ctx.check(all(abs(x * mag - y) <= 1e-12 * (unit + abs(y)) for x, y in zip(un, a)), "vector_normalize-direction", "vector_normalize(%r) = %r" % (a, un))
    ctx.check(linalg.vector_generate(a, b) == [float(y - x) for x, y in zip(Fa, Fb)], "vector_generate", "vector_generate(%r, %r) = %r" % (a, b, linalg.vector_generate(a, b)))
    ctx.check(linalg.vector_sum(a, b, c) == [float(x + F(c) * y) for x, y in zip(Fa, Fb)], "vector_sum", "vector_sum(%r, %r, %r) = %r" % (a, b, c, linalg.vector_sum(a, b, c)))
    ctx.check(linalg.vector_multiply(a, c) == [float(x * F(c)) for x in Fa], "vector_multiply", "vector_multiply(%r, %r)" % (a, c))
    mean = linalg.vector_mean(a, b, a)
    ctx.check(all(abs(F(x) - (2 * p + q) / 3) <= F(1, 10 ** 12) * F(unit) for x, p, q in zip(mean, Fa, Fb)), "vector_mean", "vector_mean(a, b, a) = %r" % (mean,))
    dist = linalg.point_distance(a, b)
    ctx.check(abs(dist - ref.fsqrt(sum((x - y) ** 2 for x, y in zip(Fa, Fb)))) <= 1e-12 * (unit + dist), "point_distance", "point_distance(%r, %r) = %r" % (a, b, dist))
    mid = linalg.point_mid(a, b)
    ctx.check(all(abs(F(x) - (p + q) / 2) <= F(1, 10 ** 12) * F(unit) for x, p, q in zip(mid, Fa, Fb)), "point_mid", "point_mid(%r, %r) = %r" % (a, b, mid))
    M1, M2, vec = case["M1"], case["M2"], case["vec"]
    if case.get("mexp"):
        # entries of very small / large magnitude in the left factor (exact power-of-two scaling): products are products
        M1 = [[x * 2.0 ** case["mexp"] for x in r] for r in M1]
        ctx.label("tiny-or-huge-matrix-entries")
    T = linalg.matrix_transpose(M1)
    ctx.check([list(r) for r in T] == [[M1[i][j] for i in range(len(M1))] for j in range(len(M1[0]))], "matrix_transpose", "matrix_transpose(%r) = %r" % (M1, T))
    prod = linalg.matrix_multiply(M1, M2)
    ctx.check([[F(x) for x in r] for r in prod] == ref.mat_mul(M1, M2), "matrix_multiply", "matrix_multiply(%r, %r) = %r" % (M1, M2, prod))
    # the scalar product of a matrix, the translate of a point and the zero test are products, sums and comparisons of the
    # same entries (all exact for these binary fractions)
    M1_before = [list(r) for r in M1]
    sm = linalg.matrix_scalar(M1, c)
    ctx.check(len(sm) == len(M1) and all(len(r) == len(q) and all(F(x) == F(y) * F(c) for x, y in zip(r, q)) for r, q in zip(sm, M1)),
              "matrix_scalar", "matrix_scalar(%r, %r) = %r" % (M1, c, sm))
    ctx.check([list(r) for r in M1] == M1_before, "matrix_scalar-input-untouched", "matrix_scalar changed its input %r into %r" % (M1_before, M1))
    for p_, v_ in ((a, b), (tuple(b), tuple(a)), (a[:2], b)):
        pt = linalg.point_translate(p_, v_)
        ctx.check(len(pt) == min(len(p_), len(v_)) and all(F(x) == F(p) + F(q) for x, p, q in zip(pt, p_, v_)), "point_translate",
                  "point_translate(%r, %r) = %r" % (p_, v_, pt))
    for tol_, want_ in ((None, all(abs(x) < 10e-8 for x in a)), (unit * 100.0, True), (unit / 16.0, not any(a))):
        z = linalg.vector_is_zero(a) if tol_ is None else linalg.vector_is_zero(a, tol=tol_)
        ctx.check(z is want_ or z == want_, "vector_is_zero", "vector_is_zero(%r%s) = %r" % (a, "" if tol_ is None else ", tol=%r" % tol_, z))
    # angle between two non-zero vectors: compared with atan2(|a x b|, a . b) computed from the exact products (well conditioned
    # everywhere, unlike acos); also between a vector and its exact multiples (0 and 180 degrees)
    if any(a) and any(b):
        for va, vb, kind in ((a, b, "general"), (a, [2.0 * x for x in a], "parallel"), (b, [-0.375 * x for x in b], "anti-parallel"), (b, list(b), "same")):
            Ea, Eb = [F(x) for x in va] + [F(0)] * (3 - len(va)), [F(x) for x in vb] + [F(0)] * (3 - len(vb))
            cx = [Ea[1] * Eb[2] - Ea[2] * Eb[1], Ea[2] * Eb[0] - Ea[0] * Eb[2], Ea[0] * Eb[1] - Ea[1] * Eb[0]]
            sc_ = F(unit) * F(unit)
            sin_, cos_ = ref.fsqrt(sum(x * x for x in cx) / (sc_ * sc_)), float(sum(x * y for x, y in zip(Ea, Eb)) / sc_)
            want_rad = math.atan2(sin_, cos_)
            ctx.label("angle-" + kind)
            for deg in (None, True, False):
                try:
                    got = linalg.vector_angle_between(va, vb) if deg is None else linalg.vector_angle_between(va, vb, degrees=deg)
                except ValueError as e:
                    ctx.check(False, "vector_angle_between-raises", "vector_angle_between(%r, %r) raises %r" % (va, vb, e))
                    continue
                got_rad = got if deg is False else math.radians(got)
                # acos loses digits near 0 and pi: an error eps in the cosine moves the angle by eps / sin(angle), at most sqrt(2 eps)
                s_ = max(abs(math.sin(want_rad)), 1e-300)
                tol_ = min(8e-16 / s_, 6e-8) + 1e-14
                ctx.check(abs(got_rad - want_rad) <= tol_, "vector_angle_between", "vector_angle_between(%r, %r%s) = %r, the angle is %r %s" % (
                    va, vb, "" if deg is None else ", degrees=%r" % deg, got, math.degrees(want_rad) if deg is not False else want_rad, "degrees" if deg is not False else "radians"))
    pv = linalg.matrix_multiply(M1, vec)
    ctx.check([F(x) for x in pv] == [sum(F(M1[i][j]) * F(vec[j]) for j in range(len(vec))) for i in range(len(M1))], "matrix_vector_multiply", "matrix_multiply(%r, %r) = %r" % (M1, vec, pv))
    if case.get("tri"):
        # the substitutions behind the LU solvers: L y = b for any lower-triangular L, U x = y for any upper-triangular U
        L, rhs = case["tri"]["L"], case["tri"]["b"]
        n = len(L)
        FL = [[F(x) for x in r] for r in L]
        ye = []
        for i in range(n):
            ye.append((F(rhs[i]) - sum(FL[i][j] * ye[j] for j in range(i))) / FL[i][i])
        y = linalg.forward_substitution([list(r) for r in L], list(rhs))
        ctx.label("triangular-non-unit-leading-entry", L[0][0] != 1.0)
        ctx.check(len(y) == n and all(abs(F(a) - e) <= F(1, 10 ** 10) * (1 + max(map(abs, ye))) for a, e in zip(y, ye)), "forward_substitution",
                  "forward_substitution(%r, %r) = %r, exact solution of L y = b is %r" % (L, rhs, y, ref.fl(ye)))
        U = [[L[j][i] for j in range(n)] for i in range(n)]
        xe = [F(0)] * n
        for i in range(n - 1, -1, -1):
            xe[i] = (F(rhs[i]) - sum(FL[j][i] * xe[j] for j in range(i + 1, n))) / FL[i][i]
        # Doolittle's factorisation itself: A = L U with A built from these triangular factors (all leading minors non-zero)
        FA = [[sum(FL[i][k] * FL[j][k] for k in range(n)) for j in range(n)] for i in range(n)]
        A = [[float(v) for v in r] for r in FA]
        dl, du = linalg.lu_decomposition([list(r) for r in A])
        lu_shape = len(dl) == n and len(du) == n and all(len(r) == n for r in dl) and all(len(r) == n for r in du)
        ctx.check(lu_shape and all(dl[i][i] == 1.0 and all(dl[i][j] == 0.0 for j in range(i + 1, n)) and all(du[i][j] == 0.0 for j in range(i)) for i in range(n)),
                  "lu_decomposition-triangular", "lu_decomposition(%r): L = %r is not unit lower triangular or U = %r not upper triangular" % (A, dl, du))
        if lu_shape:
            big = max([1] + [abs(F(v)) for r in dl for v in r]) * max([1] + [abs(F(v)) for r in du for v in r])
            ctx.check(all(abs(sum(F(dl[i][k]) * F(du[k][j]) for k in range(n)) - FA[i][j]) <= F(1, 10 ** 11) * n * big for i in range(n) for j in range(n)),
                      "lu_decomposition-product", "lu_decomposition(%r) = (%r, %r): L U differs from the matrix" % (A, dl, du))
        x = linalg.backward_substitution(U, list(rhs))
        ctx.check(len(x) == n and all(abs(F(a) - e) <= F(1, 10 ** 10) * (1 + max(map(abs, xe))) for a, e in zip(x, xe)), "backward_substitution",
                  "backward_substitution(%r, %r) = %r, exact solution of U x = y is %r" % (U, rhs, x, ref.fl(xe)))
    k, i = case["k"], case["i"]
    bc = linalg.binomial_coefficient(k, i)
    ctx.check(bc == (float(math.comb(k, i)) if i <= k else 0.0), "binomial_coefficient", "binomial_coefficient(%d, %d) = %r, exact %r" % (k, i, bc, math.comb(k, i) if i <= k else 0))
    s0, span, num = case["lin"]
    s0 = s0 + case.get("lin_far", 0.0)          # an interval of ordinary length far from the origin is an interval too
    ctx.label("linspace-far-from-origin", bool(case.get("lin_far")))
    ls = linalg.linspace(s0, s0 + span, num)
    ctx.check(len(ls) == num, "linspace-count", "linspace(%r, %r, %d) has %d values" % (s0, s0 + span, num, len(ls)))
    ctx.check(abs(ls[0] - s0) <= 1e-15 * (1 + abs(s0)) and abs(ls[-1] - (s0 + span)) <= 1e-14 * (1 + abs(s0 + span)), "linspace-ends", "linspace ends %r, %r" % (ls[0], ls[-1]))
    ctx.label("linspace-decreasing", span < 0)
    if case.get("lin_dec"):
        # with the documented rounding keyword every value is the evenly spaced value rounded to that many decimals
        dec = case["lin_dec"]
        lsd = linalg.linspace(s0, s0 + span, num, decimals=dec)
        ctx.check(len(lsd) == num and all(abs(F(x) - (F(s0) + F(span) * F(j, num - 1))) <= F(1, 2 * 10 ** dec) + F(1, 10 ** 13) * (1 + abs(F(s0)) + abs(F(span))) for j, x in enumerate(lsd)),
                  "linspace-decimals", "linspace(%r, %r, %d, decimals=%d) = %r" % (s0, s0 + span, num, dec, lsd))
    ctx.check(all(abs(F(x) - (F(s0) + F(span) * F(j, num - 1))) <= F(1, 10 ** 13) * (1 + abs(F(s0)) + abs(F(span))) for j, x in enumerate(ls)), "linspace-steps", "linspace(%r, %r, %d) = %r" % (s0, s0 + span, num, ls))


SUBCHECKS = [
    SubCheck("single", _system, check_single, quick=500, thorough=3000, shards_quick=2,
             rule="non-trivial = row swap required (largest leading entry not in row 0), or n >= 4"),
    SubCheck("history", _history, check_history, quick=250, thorough=1500,
             rule="non-trivial = history with >= 2 different kinds of calls on the same matrix size, or a row swap"),
    SubCheck("helpers", _helper_cases, check_helpers, quick=600, thorough=3000,
             rule="non-trivial = 3-D vectors, or binomial with i > k or k >= 23"),
]

# coverage-guided tier (thorough only): (sub-check, libFuzzer runs per process, processes)
FUZZ = [("single", 15000, 3)]
