"""C17 - results do not depend on configuration choices (DESIGN.md section 5, C17)."""
import copy
import json
import os
import subprocess
import sys

from hypothesis import strategies as st

from geomdl import helpers, evaluators, operations, multi, voxelize

from vp import gen, build, shape
from vp.core import SubCheck, Skip
from vp.props.C04 import ins_desc, pick_insert

RULE = ("Cases: one generated geometry + query per case, evaluated under two or more configurations: span search linear vs "
        "binary and default vs alternative evaluator; normalize_kv True vs False on an affine knot range with parameters "
        "mapped by knot index / span fraction; num_procs in {1,2,4,8} for container tessellation and voxelisation; "
        "GEOMDL_CACHE_SIZE in {unset, 1, 16, 1024} (fresh interpreter per value).  Oracle = differential equality.")
ASSUMPTIONS = ["span/evaluator and normalisation differentials compared to 1e-9 relative (different but equivalent arithmetic)",
               "num_procs and cache size differentials compared exactly (same arithmetic)",
               "scheduler interleavings of multiprocessing.Pool are not controlled; only results of the order-preserving map are compared"]


def _rel_eq(a, b, tol=1e-9):
    if isinstance(a, (list, tuple)) and isinstance(b, (list, tuple)):
        return len(a) == len(b) and all(_rel_eq(x, y, tol) for x, y in zip(a, b))
    if isinstance(a, (int, float)) and isinstance(b, (int, float)):
        return abs(a - b) <= tol * (1.0 + max(abs(a), abs(b)))
    return a == b


# ------------------------------------------------------------------------------------------------ (a) span function / evaluator
@st.composite
def _span_cases(draw, tier):
    big = tier == "thorough"
    d = draw(gen.spline(max_p=5 if big else 4, max_extra=5 if big else 4, unclamped="maybe", affine_range="maybe", normalize="maybe",
                        vol_max_p=2, vol_max_extra=2))
    pdim = len(d["degree"])
    return {"defn": d, "params": draw(st.lists(gen.params(pdim), min_size=1, max_size=4)), "order": draw(st.integers(0, max(d["degree"]) + 2)),
            "n": draw(st.integers(2, 9 if pdim < 3 else 4))}


def _queries(obj, d, plist, order, n):
    out = {}
    pd = obj.pdimension
    out["single"] = [list(obj.evaluate_single(build.call_param(obj, us))) for us in plist]
    out["list"] = [list(p) for p in obj.evaluate_list([build.call_param(obj, us) for us in plist])]
    obj.delta = 1.0 / n
    out["evalpts"] = [list(p) for p in obj.evalpts]
    # a sub-range given from its upper to its lower end (sampled in that order)
    if pd == 1:
        a, b = obj.domain
        obj.evaluate(start=b - 0.125 * (b - a), stop=a + 0.125 * (b - a))
        out["descending"] = [list(p) for p in obj.evalpts]
    elif pd == 2:
        (a, b), (c_, d_) = obj.domain
        obj.evaluate(start_u=b, stop_u=a + 0.25 * (b - a), start_v=c_, stop_v=d_ - 0.25 * (d_ - c_))
        out["descending"] = [list(p) for p in obj.evalpts]
    if pd == 1:
        out["ders"] = [[list(v) for v in obj.derivatives(us[0], order)] for us in plist]
    elif pd == 2:
        ders = []
        for us in plist:
            skl = obj.derivatives(us[0], us[1], order)
            ders.append([[list(skl[k][l]) for l in range(order + 1 - k)] for k in range(order + 1)])
        out["ders"] = ders
    return out


def check_span_evaluator(case, ctx):
    d = case["defn"]
    base = build.make(d)
    plist, kinds = [], []
    for descs in case["params"]:
        us, ks = build.resolve_params(base, descs)
        plist.append(us)
        kinds += ks
    want = _queries(base, d, plist, case["order"], case["n"])
    configs = [("binary span search", {"find_span_func": helpers.find_span_binsearch}, None)]
    if not d["rational"] and d["kind"] in ("curve", "surface"):
        ev = evaluators.CurveEvaluator2 if d["kind"] == "curve" else evaluators.SurfaceEvaluator2
        configs.append(("alternative evaluator", {}, ev))
        configs.append(("alternative evaluator + binary span search", {"find_span_func": helpers.find_span_binsearch}, ev))
    ctx.nt(any(k in ("knot", "start", "end") for k in kinds), "on-knot-or-end")
    ctx.nt(case["order"] > min(d["degree"]), "order>degree")
    ctx.label("kind:" + d["kind"])
    ctx.label("unclamped", d.get("unclamped", False))
    for name, kw, ev in configs:
        o = build.make(d, **kw)
        if ev is not None:
            o.evaluator = ev()
        got = _queries(o, d, plist, case["order"], case["n"])
        for key in want:
            ctx.check(_rel_eq(got[key], want[key]), "config-differs-" + key,
                      "%s: %s differs from the default configuration (got %s..., default %s...)" % (name, key, repr(got[key])[:200], repr(want[key])[:200]))


# ------------------------------------------------------------------------------------------------ (b) normalize_kv
@st.composite
def _norm_cases(draw, tier):
    d = draw(gen.spline(max_p=4, max_extra=4, unclamped="maybe", affine_range=True, normalize=True, vol_max_p=2, vol_max_extra=2))
    pdim = len(d["degree"])
    return {"defn": d, "params": draw(st.lists(gen.params(pdim), min_size=1, max_size=3)), "order": draw(st.integers(0, max(d["degree"]) + 1)),
            "n": draw(st.integers(2, 9 if pdim < 3 else 4)), "op": draw(st.sampled_from(["none", "insert", "insert", "refine", "split", "tessellate", "sample_size", "rotate"])),
            "ins": draw(ins_desc()), "k": draw(st.integers(0, 2))}


def check_normalize(case, ctx):
    d = case["defn"]
    pd = len(d["degree"])
    N = build.make(d, normalize=True)
    Fo = build.make(d, normalize=False)
    # the normalising object maps [first knot, last knot] of each direction onto [0, 1]
    kF = build.kvs_of(Fo)
    aff = [[kv[0], kv[-1] - kv[0]] for kv in kF]
    B = [a[1] for a in aff]
    ctx.nt(any(a[0] != 0.0 or a[1] != 1.0 for a in aff), "non-identity-range")
    ctx.label("unclamped", d.get("unclamped", False))
    ctx.label("kind:" + d["kind"])
    ctx.label("op:" + case["op"])
    RN = build.exact_from(d, N)          # only for the magnitude scale of each derivative (cancellation-aware tolerance)
    kinds_all = []
    for descs in case["params"]:
        # parameters correspond by knot index / span fraction; the 'other direction' class does not correspond
        descs = [(["in"] + list(x[1:3])) if x[0] in ("other", "near", "within", "zero", "edge") else x for x in descs]
        uN, kinds = build.resolve_params(N, descs)
        uF, _ = build.resolve_params(Fo, descs)
        kinds_all += kinds
        a = N.evaluate_single(build.call_param(N, uN))
        b = Fo.evaluate_single(build.call_param(Fo, uF))
        ctx.check(_rel_eq(list(a), list(b)), "normalize-evaluate", "point at %r (normalised) = %r, at %r (original range) = %r" % (uN, a, uF, b))
        order = case["order"]
        Mag = RN.derivatives(uN, order)[1] if pd < 3 else {}

        def der_eq(a, b, key):
            tol = 1e-8 * float(Mag[key])
            return len(a) == len(b) and all(abs(x - y) <= tol for x, y in zip(a, b))
        if pd == 1:
            dn, df = N.derivatives(uN[0], order), Fo.derivatives(uF[0], order)
            for k in range(order + 1):
                ctx.check(der_eq(list(dn[k]), [x * B[0] ** k for x in df[k]], (k,)), "normalize-derivative",
                          "derivative %d: normalised %r, original range %r (scale %r)" % (k, dn[k], df[k], B[0] ** k))
        elif pd == 2:
            dn, df = N.derivatives(uN[0], uN[1], order), Fo.derivatives(uF[0], uF[1], order)
            for k in range(order + 1):
                for l in range(order + 1 - k):
                    ctx.check(der_eq(list(dn[k][l]), [x * B[0] ** k * B[1] ** l for x in df[k][l]], (k, l)), "normalize-derivative",
                              "derivative (%d,%d): normalised %r, original range %r" % (k, l, dn[k][l], df[k][l]))
    ctx.nt(any(k in ("knot", "end", "start") for k in kinds_all), "on-knot-or-end")
    plN, plF = [], []
    for descs in case["params"]:
        descs = [(["in"] + list(x[1:3])) if x[0] in ("other", "near", "within", "zero", "edge") else x for x in descs]
        plN.append(build.call_param(N, build.resolve_params(N, descs)[0]))
        plF.append(build.call_param(Fo, build.resolve_params(Fo, descs)[0]))
    ln, lf = N.evaluate_list(plN), Fo.evaluate_list(plF)
    ctx.check(len(ln) == len(plN) and len(lf) == len(plF), "normalize-evaluate_list", "evaluate_list of %d in-domain parameters returned %d (normalised) and %d (original range) points" % (len(plN), len(ln), len(lf)))
    ctx.check(_rel_eq([list(p) for p in ln], [list(p) for p in lf]), "normalize-evaluate_list", "evaluate_list differs between the two settings")
    n = case["n"]
    N.delta = 1.0 / n
    Fo.delta = 1.0 / n
    ctx.check(_rel_eq([list(p) for p in N.evalpts], [list(p) for p in Fo.evalpts]), "normalize-evalpts", "evalpts with delta 1/%d differ between the two settings" % n)
    if pd == 1:
        # a part of the curve: from the parameter 0.0 of the original range (when the domain contains it) - else from the first
        # quarter - to the domain end; the corresponding part of the normalised curve runs from (0 - a) / (b - a)
        aF, bF = Fo.domain
        aN, bN = N.domain
        t0 = 0.0 if aF < 0.0 < bF else aF + 0.25 * (bF - aF)
        ctx.label("part-starting-at-parameter-zero", t0 == 0.0)
        Fo.evaluate(start=t0, stop=bF)
        N.evaluate(start=aN + (t0 - aF) / (bF - aF) * (bN - aN), stop=bN)
        ctx.check(_rel_eq([list(p) for p in N.evalpts], [list(p) for p in Fo.evalpts], 1e-8), "normalize-evaluate-part",
                  "the part of the curve from parameter %r to the domain end differs between the two settings" % t0)
        Fo.evaluate(start=aF, stop=t0 if t0 != aF else bF)
        N.evaluate(start=aN, stop=(aN + (t0 - aF) / (bF - aF) * (bN - aN)) if t0 != aF else bN)
        ctx.check(_rel_eq([list(p) for p in N.evalpts], [list(p) for p in Fo.evalpts], 1e-8), "normalize-evaluate-part",
                  "the part of the curve from the domain start to parameter %r differs between the two settings" % t0)
        N.evaluate()
        Fo.evaluate()
    ctx.check(_rel_eq([list(x) for x in N.bbox], [list(x) for x in Fo.bbox]), "normalize-bbox", "bbox differs")
    op = case["op"]
    if op in ("insert", "refine", "split") and d.get("unclamped"):
        op = "none"      # knot insertion / refinement / splitting are specified for clamped knot vectors (C04-C07)
    if op == "sample_size":
        for o in (N, Fo):
            if pd == 1:
                o.sample_size = n
            else:
                o.sample_size = n
        sn = N.sample_size if pd > 1 else [N.sample_size]
        sf = Fo.sample_size if pd > 1 else [Fo.sample_size]
        ctx.check(list(sn) == [n] * pd and list(sf) == [n] * pd, "normalize-sample_size", "sample_size = %d gives %r (normalised) and %r (original range)" % (n, list(sn), list(sf)))
        ctx.check(_rel_eq([list(p) for p in N.evalpts], [list(p) for p in Fo.evalpts]), "normalize-evalpts", "evalpts after sample_size = %d differ" % n)
    elif op in ("insert", "refine"):
        k = case["k"] % pd
        degs = d["degree"]
        if op == "insert":
            ins = (["in"] + list(case["ins"][1:])) if case["ins"][0] in ("other", "near", "decimal", "again", "within") else case["ins"]
            pickN = pick_insert(degs[k], build.kvs_of(N)[k], build.sizes_of(N)[k], ins)
            pickF = pick_insert(degs[k], build.kvs_of(Fo)[k], build.sizes_of(Fo)[k], ins)
            zero_in = [j for j in range(pd) if build.kvs_of(Fo)[j][degs[j]] < 0.0 < build.kvs_of(Fo)[j][build.sizes_of(Fo)[j]]]
            if zero_in:
                k = zero_in[0]
                pickN = pick_insert(degs[k], build.kvs_of(N)[k], build.sizes_of(N)[k], ins)
                pickF = pick_insert(degs[k], build.kvs_of(Fo)[k], build.sizes_of(Fo)[k], ins)
            kvF_ = build.kvs_of(Fo)[k]
            if zero_in:
                # the parameter 0.0 lies inside the original range: insert exactly there (and at its image in the normalised twin)
                s0 = sum(1 for x in kvF_ if abs(x) <= 1e-9)
                if s0 < degs[k]:
                    pickF = (0.0, s0, 1)
                    pickN = ((0.0 - aff[k][0]) / aff[k][1], s0, 1)
                    ctx.label("insertion-at-parameter-zero")
            if pickN is None or pickF is None or pickN[1:] != pickF[1:]:
                raise Skip("no admissible insertion")
            undo = []
            for o, pk in ((N, pickN), (Fo, pickF)):
                params, nums = [None] * pd, [0] * pd
                params[k], nums[k] = pk[0], pk[2]
                operations.insert_knot(o, params, nums)
                undo.append((o, list(params), list(nums)))
        else:
            dens = [0] * pd
            dens[k] = 1
            for o in (N, Fo):
                operations.refine_knotvector(o, list(dens))
        ctx.check(build.sizes_of(N) == build.sizes_of(Fo), "normalize-op-sizes", "%s: sizes %r vs %r" % (op, build.sizes_of(N), build.sizes_of(Fo)))
        for kk in range(pd):
            mapped = [aff[kk][0] + aff[kk][1] * x for x in build.kvs_of(N)[kk]]
            ctx.check(_rel_eq(mapped, build.kvs_of(Fo)[kk], 1e-12), "normalize-op-knots", "%s: knot vectors do not correspond in direction %d" % (op, kk))
        N.delta = 1.0 / n
        Fo.delta = 1.0 / n
        ctx.check(_rel_eq([list(p) for p in N.evalpts], [list(p) for p in Fo.evalpts]), "normalize-op-shape", "shape after %s differs between the two settings" % op)
        if op == "insert" and case["n"] % 2 == 0:
            # ... and the knots just inserted are removed again, in both settings
            for o, params, nums in undo:
                operations.remove_knot(o, params, nums)
            ctx.label("insert-then-remove")
            ctx.check(build.sizes_of(N) == build.sizes_of(Fo), "normalize-op-sizes", "insert then remove: sizes %r vs %r" % (build.sizes_of(N), build.sizes_of(Fo)))
            for kk in range(pd):
                mapped = [aff[kk][0] + aff[kk][1] * x for x in build.kvs_of(N)[kk]]
                ctx.check(_rel_eq(mapped, build.kvs_of(Fo)[kk], 1e-12), "normalize-op-knots", "insert then remove: knot vectors do not correspond in direction %d" % kk)
            ctx.check(_rel_eq([list(p) for p in N.evalpts], [list(p) for p in Fo.evalpts], 1e-7), "normalize-op-shape", "shape after insert then remove differs between the two settings")
    elif op == "split" and pd < 3:
        k = case["k"] % pd
        ins = (["in"] + list(case["ins"][1:3])) if case["ins"][0] in ("other", "near", "decimal", "again", "within") else case["ins"][:3]
        uN, kind = build.resolve_param(d["degree"][k], build.kvs_of(N)[k], build.sizes_of(N)[k], ins)
        uF, _ = build.resolve_param(d["degree"][k], build.kvs_of(Fo)[k], build.sizes_of(Fo)[k], ins)
        if kind in ("start", "end"):
            raise Skip("split at domain end")
        fn = operations.split_curve if pd == 1 else (operations.split_surface_u if k == 0 else operations.split_surface_v)
        pn, pf = fn(N, uN), fn(Fo, uF)
        for a, b in zip(pn, pf):
            a.delta = 0.125
            b.delta = 0.125
            ctx.check(_rel_eq([list(p) for p in a.evalpts], [list(p) for p in b.evalpts]), "normalize-split", "split pieces differ between the two settings")
    elif op == "rotate":
        # a transformation that looks up the start point of the shape through its domain
        rn = operations.rotate(N, 37.5, axis=case["k"])
        rf = operations.rotate(Fo, 37.5, axis=case["k"])
        rn.delta = rf.delta = 1.0 / min(n, 4)
        ctx.check(_rel_eq([list(p) for p in rn.evalpts], [list(p) for p in rf.evalpts]), "normalize-rotate",
                  "the shape rotated by 37.5 degrees about axis %d differs between the two settings" % case["k"])
    elif op == "tessellate" and pd == 2:
        N.delta = 1.0 / max(n, 2)
        Fo.delta = 1.0 / max(n, 2)
        N.tessellate()
        Fo.tessellate()
        vn = [[v.id, list(v.uv), list(v.data)] for v in N.vertices]
        vf = [[v.id, list(v.uv), list(v.data)] for v in Fo.vertices]
        ctx.check(_rel_eq(vn, vf), "normalize-tessellate", "tessellation vertices differ between the two settings (first %r vs %r)" % (vn[:2], vf[:2]))
        ctx.check([list(f.data) for f in N.faces] == [list(f.data) for f in Fo.faces], "normalize-tessellate", "tessellation faces differ")
        # a trim curve given in each object's own (u, v) coordinates maps to the same 3-D polyline (trimming.map_trim_to_geometry)
        from geomdl import trimming as _trm, BSpline as _BS, knotvector as _kvm
        mapped = []
        for o in (build.make(d, normalize=True), build.make(d, normalize=False)):
            (ku, kv_), (pu, pv), (nu, nv) = build.kvs_of(o), build.degrees_of(o), build.sizes_of(o)
            t = _BS.Curve()
            t.degree = 1
            t.ctrlpts = [[ku[pu] + f * (ku[nu] - ku[pu]), kv_[pv] + g * (kv_[nv] - kv_[pv])] for f, g in ((0.25, 0.5), (0.5, 0.25), (0.75, 0.5), (0.5, 0.75), (0.25, 0.5))]
            t.knotvector = _kvm.generate(1, 5)
            t.sample_size = 9
            o.trims = [t]
            res = _trm.map_trim_to_geometry(o, 0) if case["k"] else _trm.map_trim_to_geometry(o)
            mapped.append([[list(q) for q in r.evalpts] for r in res])
        ctx.label("trim-mapped-to-geometry")
        ctx.check(len(mapped[0]) == 1 and len(mapped[1]) == 1 and len(mapped[0][0]) == 9 and len(mapped[1][0]) == 9, "normalize-trim-mapping",
                  "map_trim_to_geometry: %r polylines of %r points (normalised), %r of %r (original range); one trim sampled at 9 points" % (
                      len(mapped[0]), [len(x) for x in mapped[0]], len(mapped[1]), [len(x) for x in mapped[1]]))
        ctx.check(_rel_eq(mapped[0], mapped[1]), "normalize-trim-mapping", "the 3-D image of the same trim differs between the two settings: %r vs %r" % (mapped[0][0][:2], mapped[1][0][:2]))


# ------------------------------------------------------------------------------------------------ (c) num_procs
@st.composite
def _procs_cases(draw, tier):
    what = draw(st.sampled_from(["tessellate", "voxelize", "voxelize"]))
    if what == "tessellate":
        n = draw(st.integers(1, 4))
        shapes = [draw(gen.spline(kinds=("surface",), dims=(3,), max_p=2, max_extra=2, different=True)) for _ in range(n)]
        return {"what": what, "shapes": shapes, "n": draw(st.sampled_from([2, 4, 6])), "procs": draw(st.sampled_from([2, 4, 8])),
                "spacing": draw(st.sampled_from([1, 2])), "quad": draw(st.integers(0, 3)) == 0, "trimtsl": draw(st.integers(0, 3)) == 0}
    d = draw(gen.spline(kinds=("surface", "volume"), max_p=2, max_extra=2, vol_max_p=1, vol_max_extra=2, distinct=True))
    return {"what": what, "shapes": [d], "grid": [draw(st.sampled_from([3, 5, 7, 2, 4, 6])) for _ in range(3)], "n": draw(st.integers(2, 4)),
            "vkw": draw(st.sampled_from([{}, {}, {"tol": 0.0625}, {"padding": 0.0625}, {"tol": 0.125, "padding": 0.03125}])),
            "procs": draw(st.sampled_from([2, 4, 8]))}


def check_num_procs(case, ctx):
    procs = case["procs"]
    ctx.label("what:" + case["what"])
    ctx.label("procs:%d" % procs)
    if case["what"] == "tessellate":
        def run(k):
            c = multi.SurfaceContainer(*[build.make(d) for d in case["shapes"]])
            c.delta = 1.0 / case["n"]
            if case.get("quad"):
                from geomdl import tessellate as _tsl
                c.tessellator = _tsl.QuadTessellate()          # the other shipped tessellator, chosen for all members
                c.tessellate(num_procs=k)
            elif case.get("trimtsl"):
                from geomdl import tessellate as _tsl
                c.tessellator = _tsl.TrimTessellate()          # the trim-aware tessellator (a subclass with state of its own); no trims here
                c.tessellate(num_procs=k)
            else:
                c.tessellate(num_procs=k, vertex_spacing=case.get("spacing", 1))
            return ([[v.id, list(v.uv), list(v.data)] for v in c.vertices], [[f.id, list(f.data)] for f in c.faces])
        ctx.nt(len(case["shapes"]) >= 2 and len(set(tuple(d["size"]) for d in case["shapes"])) >= 2, ">=2-surfaces-different-sizes")
        ctx.nt(case.get("spacing", 1) > 1, "tessellation-keyword")
        ctx.label("quad-tessellator", bool(case.get("quad")))
        ctx.label("trim-tessellator", bool(case.get("trimtsl")) and not case.get("quad"))
        base = run(1)
        got = run(procs)
        ctx.check(got[0] == base[0], "num_procs-tessellate-vertices", "vertices with num_procs=%d differ from num_procs=1 (%d vs %d vertices)" % (procs, len(got[0]), len(base[0])))
        ctx.check(got[1] == base[1], "num_procs-tessellate-faces", "faces with num_procs=%d differ from num_procs=1 (%d vs %d faces)" % (procs, len(got[1]), len(base[1])))
    else:
        d = case["shapes"][0]
        obj = build.make(d)
        obj.delta = 1.0 / case["n"]
        bb = obj.bbox
        if any(bb[1][i] - bb[0][i] < 0.125 for i in range(3)):
            raise Skip("flat bounding box")
        nvox = case["grid"][0] * case["grid"][1] * case["grid"][2]
        ctx.nt(nvox % procs != 0, "voxel-count-not-multiple-of-procs")
        vkw = dict(case.get("vkw") or {})
        ctx.nt(bool(vkw), "voxelize-keyword")
        g1, f1 = voxelize.voxelize(obj, grid_size=tuple(case["grid"]), num_procs=1, **vkw)
        gk, fk = voxelize.voxelize(obj, grid_size=tuple(case["grid"]), num_procs=procs, **vkw)
        ctx.check(gk == g1, "num_procs-voxel-grid", "voxel grid with num_procs=%d differs" % procs)
        ctx.check(list(fk) == list(f1), "num_procs-voxel-filled", "fill flags with num_procs=%d differ from num_procs=1 (%d vs %d flags)" % (procs, len(fk), len(f1)))


# ------------------------------------------------------------------------------------------------ (d) cache size
@st.composite
def _cache_cases(draw, tier):
    ops = []
    for _ in range(draw(st.integers(6, 14))):
        k = draw(st.sampled_from(["insert", "insert", "refine", "binomial", "elevate", "matrix"]))
        if k in ("insert", "refine"):
            d = draw(gen.spline(kinds=("curve",), max_p=4, max_extra=4, normalize=False))
            p, kv, n = d["degree"][0], d["kv"][0], d["size"][0]
            cp = build.homogeneous(d["P"], d["W"]) if d["rational"] else d["P"]
            if k == "insert":
                pick = pick_insert(p, kv, n, draw(ins_desc()))
                if pick is None:
                    continue
                u, s, r = pick
                ops.append({"op": "insert", "p": p, "kv": kv, "cp": cp, "u": u, "r": r, "remove": draw(st.integers(0, r))})
            else:
                ops.append({"op": "refine", "p": p, "kv": kv, "cp": cp, "density": draw(st.integers(1, 2))})
        elif k == "binomial":
            ops.append({"op": "binomial", "pairs": [[draw(st.integers(0, 30)), draw(st.integers(0, 32))] for _ in range(12)]})
        elif k == "elevate":
            p = draw(st.integers(1, 6))
            ops.append({"op": "elevate", "p": p, "cp": draw(gen.points(p + 1, 3)), "t": draw(st.integers(1, 4))})
        else:
            n = draw(st.integers(1, 5))
            ops.append({"op": "matrix", "A": [[draw(st.integers(-8, 8)) / 2.0 for _ in range(n)] for _ in range(n)]})
    return {"battery": ops}


def _run_battery(battery, cache_size):
    env = dict(os.environ)
    env.pop("GEOMDL_CACHE_SIZE", None)
    if cache_size is not None:
        env["GEOMDL_CACHE_SIZE"] = str(cache_size)
    p = subprocess.run([sys.executable, "-B", "-m", "vp.cachebattery"], input=json.dumps(battery), env=env, stdout=subprocess.PIPE,
                       stderr=subprocess.PIPE, text=True, timeout=300)
    if p.returncode != 0:
        return {"crash": p.stderr[-600:]}
    return json.loads(p.stdout)


def check_cache_size(case, ctx):
    battery = case["battery"]
    if not battery:
        raise Skip("empty battery")
    base = _run_battery(battery, None)
    if "results" not in base:
        from vp.worker import HarnessError
        raise HarnessError("battery failed under the default configuration: %r" % (base,))
    nkeys = sum(1 for o in battery if o["op"] in ("insert", "refine", "binomial", "matrix"))
    ctx.nt(nkeys >= 2, "more-distinct-keys-than-cache-size-1")
    for size in (1, 16, 1024):
        got = _run_battery(battery, size)
        ctx.check("import_error" not in got and "crash" not in got, "cache-size-breaks-import",
                  "with GEOMDL_CACHE_SIZE=%d the package fails: %s" % (size, got.get("import_error") or got.get("crash")))
        ctx.check(got.get("results") == base["results"], "cache-size-changes-results",
                  "with GEOMDL_CACHE_SIZE=%d the results differ from the default configuration (first difference at op %r)" % (
                      size, next((i for i, (a, b) in enumerate(zip(got.get("results", []), base["results"])) if a != b), None)))


SUBCHECKS = [
    SubCheck("span_evaluator", _span_cases, check_span_evaluator, quick=300, thorough=1500, shards_quick=2,
             rule="non-trivial = parameter on a knot / domain end (where linear and binary search take different paths), or order > degree"),
    SubCheck("normalize", _norm_cases, check_normalize, quick=300, thorough=1500, shards_quick=2,
             rule="non-trivial = affine range with A != 0 or B != 1, or on-knot/end parameters"),
    SubCheck("num_procs", _procs_cases, check_num_procs, quick=60, thorough=150, shards_quick=3,
             rule="non-trivial = >= 2 surfaces of different sizes, or a voxel count that is not a multiple of num_procs"),
    SubCheck("cache_size", _cache_cases, check_cache_size, quick=6, thorough=20, shards_quick=3, shards_thorough=8,
             rule="non-trivial = battery with more distinct memoisation keys than the smallest cache size"),
]
