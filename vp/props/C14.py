"""C14 - export followed by import reproduces the geometry (DESIGN.md section 5, C14)."""
import json
import os
import shutil
import tempfile

from hypothesis import strategies as st

from geomdl import exchange, multi, compatibility, freeform, BSpline, NURBS

from vp import gen, build, shape
from vp.core import SubCheck, verif_root

RULE = ("Cases: generated curves/surfaces/volumes and containers of 1..4 with pairwise different sizes per direction, "
        "rational or not, sampling deltas set, surfaces with spline / freeform / container trims (with and without a "
        "reversed sense); oracle = round trip: the imported definition equals the exported one (degrees, sizes, knot "
        "vectors, control points, weights, delta, trims) and evaluates to the same points; file bodies parsed by an "
        "independent reader to assert the documented row/column layout.")
ASSUMPTIONS = ["JSON / txt / csv carry floats through repr: compared to 1e-15; mesh formats print 18 decimals: compared to 1e-15 absolute + 1e-15 relative",
               "JSON is exercised on normalised knot vectors (importers build normalising objects)"]


def _tmpdir():
    base = os.path.join(verif_root(), ".work")
    os.makedirs(base, exist_ok=True)
    return tempfile.mkdtemp(prefix="c14-", dir=base)


def _close(a, b, tol=1e-15):
    return abs(a - b) <= tol * (1.0 + abs(b))


def _pts_close(a, b, tol=1e-15):
    return len(a) == len(b) and all(len(p) == len(q) and all(_close(x, y, tol) for x, y in zip(p, q)) for p, q in zip(a, b))


def _hom(d):
    return build.homogeneous(d["P"], d["W"] if d["rational"] else [1.0] * len(d["P"]))


def _same_geometry(ctx, tag, what, d, obj, imp, tol=1e-15):
    """imp (always rational after import) carries the same definition as the generated d / built obj."""
    ctx.check(build.degrees_of(imp) == d["degree"], tag, "%s: degrees %r, exported %r" % (what, build.degrees_of(imp), d["degree"]))
    ctx.check(build.sizes_of(imp) == d["size"], tag, "%s: sizes %r, exported %r" % (what, build.sizes_of(imp), d["size"]))
    kv_a, kv_b = build.kvs_of(imp), build.kvs_of(obj)
    ctx.check(len(kv_a) == len(kv_b) and all(len(x) == len(y) and all(_close(p, q, tol) for p, q in zip(x, y)) for x, y in zip(kv_a, kv_b)), tag,
              "%s: knot vectors %r, exported %r" % (what, kv_a, kv_b))
    want = _hom(d)
    got = [list(p) for p in imp.ctrlptsw] if imp.rational else build.homogeneous([list(p) for p in imp.ctrlpts], [1.0] * len(want))
    ctx.check(_pts_close(got, want, tol), tag, "%s: homogeneous control points differ: first differing rows %r vs %r" % (
        what, [g for g, w in zip(got, want) if not _pts_close([g], [w], tol)][:2], [w for g, w in zip(got, want) if not _pts_close([g], [w], tol)][:2]))
    lat = shape.obj_lattice(obj, limit={1: 7, 2: 4, 3: 3}[len(d["degree"])])
    a = shape.eval_points(obj, lat)
    b = shape.eval_points(imp, lat)
    ctx.check(shape.pts_close(b, a, 1e-9), tag, "%s: imported shape evaluates differently" % what)


# ------------------------------------------------------------------------------------------------ JSON
@st.composite
def _trim(draw):
    kind = draw(st.sampled_from(["spline", "nurbs", "freeform", "container"]))
    sense = draw(st.sampled_from([None, 0, 1]))

    def loop_pts(n):
        return [[draw(st.integers(1, 15)) / 16.0, draw(st.integers(1, 15)) / 16.0] for _ in range(n)]
    if kind == "freeform":
        pts = loop_pts(draw(st.integers(3, 6)))
        if draw(st.integers(0, 3)) == 0:
            return {"kind": kind, "pts": pts, "sense": sense}          # an open polyline is data like any other
        return {"kind": kind, "pts": pts + [pts[0]], "sense": sense}
    if kind in ("spline", "nurbs"):
        p = draw(st.integers(1, 2))
        n = draw(st.integers(p + 2, p + 4))
        pts = loop_pts(n - 1)
        return {"kind": kind, "degree": p, "pts": pts + [pts[0]], "W": draw(gen.weights(n, force="varied")) if kind == "nurbs" else None,
                "kv": draw(gen.knot_vector(p, n)), "sense": sense, "delta": draw(st.sampled_from([0.1, 0.05, 0.25]))}
    members = []
    for _ in range(draw(st.integers(1, 3))):
        p = draw(st.integers(1, 2))
        n = draw(st.integers(p + 1, p + 3))
        members.append({"degree": p, "pts": loop_pts(n), "kv": draw(gen.knot_vector(p, n))})
    return {"kind": kind, "members": members, "sense": sense}


def _build_trim(t):
    if t["kind"] == "freeform":
        c = freeform.Freeform()
        c.evaluate(points=[list(p) for p in t["pts"]])
    elif t["kind"] in ("spline", "nurbs"):
        c = NURBS.Curve() if t["kind"] == "nurbs" else BSpline.Curve()
        c.degree = t["degree"]
        if t["kind"] == "nurbs":
            c.set_ctrlpts(build.homogeneous(t["pts"], t["W"]))
        else:
            c.ctrlpts = [list(p) for p in t["pts"]]
        c.knotvector = list(t["kv"])
        c.delta = t["delta"]
    else:
        c = multi.CurveContainer()
        for m in t["members"]:
            e = BSpline.Curve()
            e.degree = m["degree"]
            e.ctrlpts = [list(p) for p in m["pts"]]
            e.knotvector = list(m["kv"])
            c.add(e)
    if t["sense"] is not None:
        c.opt = ["reversed", t["sense"]]
    return c


@st.composite
def _json_cases(draw, tier):
    kind = draw(st.sampled_from(["curve", "surface", "surface", "volume"]))
    nel = draw(st.sampled_from([0, 0, 1, 2, 3, 4]))
    shapes = []
    dim = draw(st.sampled_from([2, 3])) if kind == "curve" else 3     # a container holds shapes of one spatial dimension
    for _ in range(max(nel, 1)):
        d = draw(gen.spline(kinds=(kind,), dims=(dim,), max_p=3, max_extra=3, different=True, vol_max_p=2, vol_max_extra=2, unclamped="maybe"))
        pdim = len(d["degree"])
        d["delta"] = [draw(st.sampled_from([0.5, 0.25, 0.2, 0.125, 0.1, 0.05])) for _ in range(pdim)]
        d["trims"] = [draw(_trim()) for _ in range(draw(st.integers(0, 3)))] if kind == "surface" else []
        shapes.append(d)
    return {"shapes": shapes, "container": nel > 0}


def _set_delta(obj, dl):
    if obj.pdimension == 1:
        obj.delta = dl[0]
    else:
        obj.delta = tuple(dl)


def _delta_list(obj):
    dl = obj.delta
    return [dl] if isinstance(dl, float) else list(dl)


def _check_trim(ctx, t, imp, what):
    kindmap = {"spline": "spline", "nurbs": "spline", "freeform": "freeform", "container": "container"}
    ctx.check(imp.type == kindmap[t["kind"]], "json-trim-type", "%s: imported trim type %r, exported %r" % (what, imp.type, t["kind"]))
    ctx.check(imp.opt_get("reversed") == t["sense"], "json-trim-sense", "%s: imported trim sense %r, exported %r" % (what, imp.opt_get("reversed"), t["sense"]))
    if t["kind"] == "freeform":
        ctx.check(_pts_close([list(p) for p in imp.evalpts], t["pts"]), "json-trim-data", "%s: freeform trim points differ" % what)
    elif t["kind"] in ("spline", "nurbs"):
        ctx.check(imp.degree == t["degree"] and _pts_close([list(p) for p in imp.ctrlpts], t["pts"]) and shape.kv_close(list(imp.knotvector), t["kv"]),
                  "json-trim-data", "%s: spline trim definition differs" % what)
        w = t["W"] or [1.0] * len(t["pts"])
        ctx.check(all(_close(a, b) for a, b in zip(imp.weights, w)) and len(imp.weights) == len(w), "json-trim-data", "%s: trim weights %r, exported %r" % (what, list(imp.weights), w))
        ctx.check(_close(imp.delta, t["delta"]), "json-trim-delta", "%s: trim delta %r, exported %r" % (what, imp.delta, t["delta"]))
    else:
        members = list(imp)
        ctx.check(len(members) == len(t["members"]), "json-trim-data", "%s: container trim has %d members, exported %d" % (what, len(members), len(t["members"])))
        for m, e in zip(t["members"], members):
            ctx.check(e.degree == m["degree"] and _pts_close([list(p) for p in e.ctrlpts], m["pts"]) and shape.kv_close(list(e.knotvector), m["kv"]),
                      "json-trim-data", "%s: container trim member differs" % what)


def check_json(case, ctx):
    shapes = case["shapes"]
    objs = []
    for i_, d in enumerate(shapes):
        if d["rational"] and (len(d["P"]) + i_) % 2:
            # built with the unweighted control points assigned last, from lists the caller overwrites afterwards
            handed = {}
            o = build.make(d, mode="wp", inputs=handed)
            build.scribble(handed, knots=bool(d.get("normalize", True)))
            ctx.label("callers-lists-overwritten-before-export")
        else:
            o = build.make(d)
        _set_delta(o, d["delta"])
        if d["trims"]:
            o.trims = [_build_trim(t) for t in d["trims"]]
        objs.append(o)
    kind = shapes[0]["kind"]
    if case["container"]:
        cls = {"curve": multi.CurveContainer, "surface": multi.SurfaceContainer, "volume": multi.VolumeContainer}[kind]
        target = cls(*objs)
        if len(objs) >= 2 and len(shapes[0]["P"]) % 2:
            # the container was looked at before (a loop left after its first element): export still writes all of it
            for first_ in target:
                break
            ctx.label("container-partly-iterated-before-export")
    else:
        target = objs[0]
    ctx.nt(any(len(set(d["size"])) == len(d["size"]) and len(d["size"]) > 1 for d in shapes), "sizes-differ")
    ctx.nt(any(build.varied_weights(d) for d in shapes), "rational-varied")
    ctx.nt(any(d["trims"] for d in shapes), "trims")
    ctx.nt(case["container"] and len(objs) >= 2, "container>=2")
    ctx.label("kind:" + kind)
    for d in shapes:
        for t in d["trims"]:
            ctx.label("trim:" + t["kind"])
            ctx.label("trim-sense:%r" % (t["sense"],))
    tmp = _tmpdir()
    try:
        if not case["container"] and len(shapes[0]["P"]) % 3 == 0 and not shapes[0]["trims"]:
            # a moved copy of the shape is written first; the shape itself is written afterwards and reads back as itself
            from geomdl import operations
            vec = [16.0, -8.0, 4.0][:objs[0].dimension]
            moved = operations.translate(objs[0], vec)
            fm = os.path.join(tmp, "moved.json")
            exchange.export_json(moved, fm)
            back = exchange.import_json(fm)
            ctx.label("moved-copy-exported-first")
            ctx.check(len(back) == 1, "json-count", "exported one moved copy, imported %d shapes" % len(back))
            dm = dict(shapes[0])
            dm["P"] = [[c + t for c, t in zip(q, vec)] for q in shapes[0]["P"]]
            _same_geometry(ctx, "json-geometry", "JSON round trip of a translated copy", dm, moved, back[0])
        fn = os.path.join(tmp, "shape.json")
        exchange.export_json(target, fn)
        imported = exchange.import_json(fn)
        with open(fn) as f:
            raw = json.load(f)
    finally:
        shutil.rmtree(tmp, ignore_errors=True)
    ctx.check(len(imported) == len(objs), "json-count", "exported %d shapes, imported %d" % (len(objs), len(imported)))
    ctx.check(raw["shape"]["type"] == kind and raw["shape"]["count"] == len(objs), "json-header", "file header %r" % {k: raw["shape"][k] for k in ("type", "count")})
    for i, (d, o, imp) in enumerate(zip(shapes, objs, imported)):
        what = "JSON round trip of %s %d" % (kind, i)
        ctx.check(imp.pdimension == len(d["degree"]), "json-kind", "%s: imported parametric dimension %d" % (what, imp.pdimension))
        _same_geometry(ctx, "json-geometry", what, d, o, imp)
        w_imp = list(imp.weights)
        w_exp = d["W"] if d["rational"] else [1.0] * len(d["P"])
        ctx.check(len(w_imp) == len(w_exp) and all(_close(a, b) for a, b in zip(w_imp, w_exp)), "json-weights", "%s: weights %r, exported %r" % (what, w_imp, w_exp))
        ctx.check(all(_close(a, b) for a, b in zip(_delta_list(imp), d["delta"])) and len(_delta_list(imp)) == len(d["delta"]), "json-delta",
                  "%s: delta %r, exported %r" % (what, _delta_list(imp), d["delta"]))
        ss_a = imp.sample_size if imp.pdimension > 1 else [imp.sample_size]
        ss_b = o.sample_size if o.pdimension > 1 else [o.sample_size]
        ctx.check(list(ss_a) == list(ss_b), "json-delta", "%s: sample size %r, exported %r" % (what, list(ss_a), list(ss_b)))
        if kind == "surface":
            tr = list(imp.trims) if imp.trims else []
            ctx.check(len(tr) == len(d["trims"]), "json-trim-count", "%s: %d trims imported, %d exported" % (what, len(tr), len(d["trims"])))
            for t, ti in zip(d["trims"], tr):
                _check_trim(ctx, t, ti, what)


# ------------------------------------------------------------------------------------------------ smesh / vmesh
@st.composite
def _mesh_cases(draw, tier):
    kind = draw(st.sampled_from(["surface", "volume"]))
    n = draw(st.sampled_from([1, 1, 2, 3, 4]))
    shapes = [_ordinary_weights(draw(gen.spline(wspread=True, kinds=(kind,), max_p=3, max_extra=3, different=True, vol_max_p=2, vol_max_extra=2, unclamped="maybe")))
              for _ in range(n)]
    return {"shapes": shapes}


def _ordinary_weights(d):
    """The mesh and text formats print a fixed number of decimals ("up to the printed precision"): weights of order 1e-9
    (the 2^-30 class of gen.weights) do not survive that and are outside what these formats can carry; scale them back."""
    if d["rational"] and max(d["W"]) < 2.0 ** -20:
        d["W"] = [w * 2.0 ** 30 for w in d["W"]]
    return d


def _parse_mesh(text, pdim):
    """Independent reader of the documented layout: dimension / degrees / sizes / knot lines / points (x y z w), u fastest."""
    lines = [l.split() for l in text.strip().split("\n")]
    dim = int(lines[0][0])
    degs = [int(x) for x in lines[1]]
    sizes = [int(x) for x in lines[2]]
    kvs = [[float(x) for x in lines[3 + k]] for k in range(pdim)]
    cnt = 1
    for s in sizes:
        cnt *= s
    pts = [[float(x) for x in l] for l in lines[3 + pdim:3 + pdim + cnt]]
    return dim, degs, sizes, kvs, pts, lines[3 + pdim + cnt:]


def check_mesh(case, ctx):
    shapes = case["shapes"]
    kind = shapes[0]["kind"]
    pdim = 2 if kind == "surface" else 3
    objs = [build.make(d) for d in shapes]
    cls = multi.SurfaceContainer if kind == "surface" else multi.VolumeContainer
    target = objs[0] if len(objs) == 1 else cls(*objs)
    exp = exchange.export_smesh if kind == "surface" else exchange.export_vmesh
    imp_f = exchange.import_smesh if kind == "surface" else exchange.import_vmesh
    ctx.nt(True, "sizes-differ")
    ctx.nt(any(build.varied_weights(d) for d in shapes), "rational-varied")
    ctx.nt(len(objs) >= 2, "multi-file")
    ctx.label("kind:" + kind)
    tmp = _tmpdir()
    try:
        fn = os.path.join(tmp, "mesh.txt")
        exp(target, fn)
        names = sorted(os.listdir(tmp))
        want_names = ["mesh.txt"] if len(objs) == 1 else ["mesh.%d.txt" % (i + 1) for i in range(len(objs))]
        ctx.check(names == want_names, "mesh-file-names", "exported files %r, documented numbering %r" % (names, want_names))
        texts = [open(os.path.join(tmp, n)).read() for n in names]
        imported = imp_f(tmp) if len(objs) > 1 else imp_f(fn)
    finally:
        shutil.rmtree(tmp, ignore_errors=True)
    ctx.check(len(imported) == len(objs), "mesh-count", "exported %d shapes, imported %d" % (len(objs), len(imported)))
    for i, (d, o, m, text) in enumerate(zip(shapes, objs, imported, texts)):
        what = "%s round trip of shape %d" % ("smesh" if kind == "surface" else "vmesh", i)
        _same_geometry(ctx, "mesh-geometry", what, d, o, m, tol=1e-15)
        ctx.check(bool(m.rational), "mesh-kind", "%s: imported shape is not rational" % what)
        dim, degs, sizes, kvs, pts, rest = _parse_mesh(text, pdim)
        ctx.check(dim == 3 and degs == d["degree"] and sizes == d["size"], "mesh-file-header", "%s: file header dim %r degrees %r sizes %r" % (what, dim, degs, sizes))
        ctx.check(all(shape.kv_close(a, b) for a, b in zip(kvs, build.kvs_of(o))), "mesh-file-knots", "%s: knot lines %r" % (what, kvs))
        nu, nv = d["size"][0], d["size"][1]
        nw = d["size"][2] if pdim == 3 else 1
        W = d["W"] if d["rational"] else [1.0] * len(d["P"])
        ok = len(pts) == nu * nv * nw
        for w in range(nw):
            for v in range(nv):
                for u in range(nu):
                    if not ok:
                        break
                    src = v + nv * (u + nu * w)
                    row = pts[u + nu * (v + nv * w)]
                    ok = ok and _pts_close([row], [list(d["P"][src]) + [W[src]]], 1e-15)
        ctx.check(ok, "mesh-file-layout", "%s: file body is not the documented u-row order of (x y z w) points" % what)


# ------------------------------------------------------------------------------------------------ txt / csv
@st.composite
def _txt_cases(draw, tier):
    d = _ordinary_weights(draw(gen.spline(kinds=("curve", "surface"), max_p=3, max_extra=4, different=True)))
    if d["kind"] == "surface" and draw(st.integers(0, 3)) == 0:
        # a net closed in v: the last control point of every row repeats the first one (tubes, surfaces of revolution)
        nv_ = d["size"][1]
        d["P"] = [list(d["P"][(i // nv_) * nv_]) if i % nv_ == nv_ - 1 else q for i, q in enumerate(d["P"])]
        if d["rational"]:
            d["W"] = [d["W"][(i // nv_) * nv_] if i % nv_ == nv_ - 1 else w for i, w in enumerate(d["W"])]
        d["closed_v"] = True
    if draw(st.integers(0, 2)) == 0:
        # coordinates that need many digits: a survey offset (exactly representable) added to every point
        d["P"] = [[c + o for c, o in zip(q, [524288.0078125, -4194304.5, 1048576.00390625])] for q in d["P"]]
        d["many_digits"] = True
    return {"defn": d, "sep": draw(st.sampled_from([",", " ", "\t", ";"])), "col": draw(st.sampled_from([";", "|", ",", " ; "])),
            "two": draw(st.booleans())}


def check_txt(case, ctx):
    d = case["defn"]
    sep, col = case["sep"], case["col"]
    if col.strip() == sep.strip():
        col = "|" if sep != "|" else ";"
    obj = build.make(d)
    stored = build.stored_points(obj)
    two = case["two"] and d["kind"] == "surface"
    ctx.nt(d["kind"] == "surface", "surface-nu!=nv")
    ctx.nt(build.varied_weights(d), "rational-varied")
    ctx.label("two-dimensional", two)
    ctx.label("separators:%r/%r" % (sep, col))
    tmp = _tmpdir()
    try:
        fn = os.path.join(tmp, "pts.txt")
        exchange.export_txt(obj, fn, two_dimensional=two, separator=sep, col_separator=col)
        body = open(fn).read()
        res = exchange.import_txt(fn, two_dimensional=two, separator=sep, col_separator=col)
        fc = os.path.join(tmp, "pts.csv")
        exchange.export_csv(obj, fc, point_type="ctrlpts")
        csv_pts = exchange.import_csv(fc)
        csv_body = open(fc).read()
    finally:
        shutil.rmtree(tmp, ignore_errors=True)
    if two:
        pts, su, sv = res
        ctx.check([su, sv] == d["size"], "txt-sizes", "2-D text import returned sizes (%r, %r), exported %r" % (su, sv, d["size"]))
        lines = body.strip().split("\n")
        ctx.check(len(lines) == d["size"][0] and all(len(l.split(col)) == d["size"][1] for l in lines), "txt-file-layout",
                  "2-D text file has %d lines with %r points each; documented: one line per u with one entry per v (sizes %r)" % (len(lines), [len(l.split(col)) for l in lines], d["size"]))
    else:
        pts = res
    ctx.check(_pts_close([list(p) for p in pts], stored), "txt-points", "text round trip changed the (homogeneous) control points")
    ctx.check(_pts_close([list(p) for p in csv_pts], stored), "csv-points", "csv round trip changed the (homogeneous) control points")
    ctx.check(len(csv_body.strip().split("\n")) == len(stored) + 1, "csv-file-layout", "csv file has %d lines for %d points + header" % (len(csv_body.strip().split("\n")), len(stored)))
    # a shape rebuilt from the imported points is the same shape
    o2 = build.make(d)
    o2.set_ctrlpts([list(p) for p in pts], *d["size"])
    ctx.check(build.snapshot(o2)["pts"] == build.snapshot(obj)["pts"], "txt-rebuild", "shape rebuilt from the imported points differs")


# ------------------------------------------------------------------------------------------------ compatibility *_file helpers
@st.composite
def _compat_cases(draw, tier):
    nu, nv = draw(st.permutations([1, 2, 3, 4, 5]))[:2]
    pts = draw(gen.points(nu * nv, 3, distinct=True))
    W = draw(gen.weights(nu * nv, force="varied"))
    return {"nu": nu, "nv": nv, "P": pts, "W": W, "thirds": draw(st.booleans())}


def check_compat_files(case, ctx):
    nu, nv, P, W = case["nu"], case["nv"], case["P"], case["W"]
    if case.get("thirds"):
        # coordinates that need all 17 significant digits (x/3): the files carry them exactly (str/repr round trip)
        P = [[c / 3.0 for c in q] for q in P]
        ctx.label("coordinates-with-17-significant-digits")
    if max(W) < 2.0 ** -20:
        W = [w * 2.0 ** 30 for w in W]
    ctx.nt(nu != nv, "non-square")
    grid = [[list(P[v + nv * u]) + [W[v + nv * u]] for v in range(nv)] for u in range(nu)]     # (x, y, z, w)
    tmp = _tmpdir()
    try:
        fin = os.path.join(tmp, "in.txt")
        with open(fin, "w") as f:
            for row in grid:
                f.write(";".join(",".join(repr(c) for c in pt) for pt in row) + "\n")
        fw, fb, ff = (os.path.join(tmp, n) for n in ("w.txt", "back.txt", "flip.txt"))
        compatibility.generate_ctrlptsw2d_file(fin, fw)
        compatibility.generate_ctrlpts2d_weights_file(fw, fb)
        compatibility.flip_ctrlpts2d_file(fin, ff)
        rw = exchange.import_txt(fw, two_dimensional=True)
        rb = exchange.import_txt(fb, two_dimensional=True)
        rf = exchange.import_txt(ff, two_dimensional=True)
    finally:
        shutil.rmtree(tmp, ignore_errors=True)
    flat = [pt for row in grid for pt in row]
    ctx.check([rw[1], rw[2]] == [nu, nv], "compat-file-shape", "generate_ctrlptsw2d_file wrote %dx%d for a %dx%d net" % (rw[1], rw[2], nu, nv))
    ctx.check(_pts_close(rw[0], [[c * p[3] for c in p[:3]] + [p[3]] for p in flat]), "compat-file-weighted", "weighted file is not (x*w, y*w, z*w, w)")
    ctx.check([rb[1], rb[2]] == [nu, nv] and _pts_close(rb[0], flat), "compat-file-roundtrip", "generate_ctrlpts2d_weights_file(generate_ctrlptsw2d_file(x)) != x")
    ctx.check([rf[1], rf[2]] == [nv, nu], "compat-file-shape", "flip_ctrlpts2d_file wrote %dx%d for a %dx%d net" % (rf[1], rf[2], nu, nv))
    ctx.check(_pts_close(rf[0], [grid[u][v] for v in range(nv) for u in range(nu)]), "compat-file-flip", "flipped file is not the transposed net")


SUBCHECKS = [
    SubCheck("json", _json_cases, check_json, quick=250, thorough=1500,
             rule="non-trivial = sizes differ per direction, or rational varied weights, or trims present, or container >= 2"),
    SubCheck("mesh", _mesh_cases, check_mesh, quick=200, thorough=1000,
             rule="every case has pairwise different sizes; also rational varied weights / multi-file export"),
    SubCheck("txt_csv", _txt_cases, check_txt, quick=300, thorough=1500,
             rule="non-trivial = surface with nu != nv, or rational varied weights"),
    SubCheck("compat_files", _compat_cases, check_compat_files, quick=150, thorough=600, shards_thorough=4,
             rule="non-trivial = non-square net"),
]
