"""C15 - tessellation is a valid triangulation lying on the surface (DESIGN.md section 5, C15)."""
import math
import struct
from fractions import Fraction as F

from hypothesis import strategies as st

from geomdl import tessellate, exchange, multi, freeform, BSpline

from vp import gen, build, ref
from vp.core import SubCheck, Skip

RULE = ("Cases: generated 3-D surfaces (rational or not), sample sizes k*m+1 per direction with vertex spacing k in 1..4, "
        "containers of 2-3 surfaces, closed polygonal (convex and non-convex) and spline trims of both senses; oracle = "
        "combinatorial mesh validity (ids, edge incidence, Euler characteristic, orientation, uv-area), vertices on the "
        "exact reference surface, trimmed coverage vs exact winding number away from the trim boundary, exported files "
        "parsed by independent readers.")
ASSUMPTIONS = ["uv areas compared to 1e-9; vertex positions to 1e-9 * scale; binary STL to float32 precision",
               "lattice points closer than one sampling-cell diagonal to the trim boundary are not asserted"]


def _surface(draw, big, normalize=True):
    return draw(gen.spline(kinds=("surface",), dims=(3,), max_p=3, max_extra=4 if big else 3, unclamped="maybe", affine_range="maybe",
                           normalize="maybe", different=False))


@st.composite
def _sizes(draw, tier, kmax=4):
    k = draw(st.integers(1, kmax))
    hi = 40 if tier == "thorough" else 12
    mu = draw(st.integers(1, max(1, hi // k)))
    mv = draw(st.integers(1, max(1, hi // k)))
    return k, k * mu + 1, k * mv + 1


def _orient2(a, b, c):
    return (b[0] - a[0]) * (c[1] - a[1]) - (c[0] - a[0]) * (b[1] - a[1])


def _mesh_validity(ctx, verts, faces, nper, what, tiles=True):
    """Combinatorial validity of a triangle (nper=3) or quad (nper=4) mesh."""
    ids = [v.id for v in verts]
    ctx.check(ids == list(range(len(verts))), "vertex-ids", "%s: vertex ids are not 0..V-1 in order: %r..." % (what, ids[:12]))
    byid = {v.id: v for v in verts}
    edges = {}
    for f in faces:
        d = list(f.data)
        ctx.check(len(d) == nper and all(isinstance(i, int) and 0 <= i < len(verts) for i in d), "face-index-range",
                  "%s: face %r references vertices outside 0..%d" % (what, d, len(verts) - 1))
        ctx.check(len(set(d)) == nper, "face-degenerate", "%s: face %r repeats a vertex" % (what, d))
        # the ids stored in the face agree with its vertex objects
        ctx.check([v.id for v in f.vertices] == d, "face-data-vs-vertices", "%s: face.data %r but its vertex objects have ids %r" % (what, d, [v.id for v in f.vertices]))
        for a, b in zip(d, d[1:] + d[:1]):
            edges[(a, b)] = edges.get((a, b), 0) + 1
        if nper == 3 and all(0 <= i < len(verts) for i in d):
            # the triangle's own accessors describe the same three corners and the three sides between them
            pts = [list(byid[i].data) for i in d if i in byid]
            if len(pts) == 3:
                closed = [list(q) for q in f.vertices_closed]
                ctx.check(closed == pts + pts[:1], "triangle-accessors", "%s: face %r: vertices_closed is %r for corners %r" % (what, d, closed, pts))
                sides = [[list(a_), list(b_)] for a_, b_ in f.edges]
                ctx.check(sides == [[pts[0], pts[1]], [pts[1], pts[2]], [pts[2], pts[0]]], "triangle-accessors",
                          "%s: face %r: edges is %r for corners %r" % (what, d, sides, pts))
    return byid, edges


def _check_disc(ctx, verts, faces, edges, byid, what):
    """Triangles tile the unit square exactly once with one orientation: edge incidence, Euler characteristic, area."""
    signs = set()
    area = 0.0
    for f in faces:
        a, b, c = (byid[i].uv for i in f.data)
        o = _orient2(a, b, c)
        signs.add(o > 0)
        ctx.check(abs(o) > 1e-14, "zero-area-triangle", "%s: triangle %r has zero area in uv" % (what, list(f.data)))
        area += abs(o) / 2.0
    ctx.check(len(signs) == 1, "orientation-inconsistent", "%s: triangles have both orientations in uv" % what)
    ctx.check(abs(area - 1.0) <= 1e-9, "uv-area", "%s: triangle areas in the parametric square sum to %r, not 1" % (what, area))
    und = {}
    for (a, b), c in edges.items():
        ctx.check(c == 1, "edge-used-twice-same-direction", "%s: directed edge (%d,%d) is used by %d triangles" % (what, a, b, c))
        key = (min(a, b), max(a, b))
        und[key] = und.get(key, 0) + c
    ctx.check(all(c in (1, 2) for c in und.values()), "edge-incidence", "%s: an edge is shared by more than two triangles" % what)
    V, E, Fc = len(verts), len(und), len(faces)
    ctx.check(V - E + Fc == 1, "euler-characteristic", "%s: V - E + F = %d - %d + %d = %d, a disc has 1" % (what, V, E, Fc, V - E + Fc))
    # boundary edges lie on the boundary of the square
    for (a, b), c in und.items():
        if c == 1:
            ua, ub = byid[a].uv, byid[b].uv
            on = any(abs(ua[k] - t) <= 1e-9 and abs(ub[k] - t) <= 1e-9 for k in (0, 1) for t in (0.0, 1.0))
            ctx.check(on, "interior-edge-unshared", "%s: edge (%d,%d) between uv %r and %r belongs to one triangle but is not on the boundary" % (what, a, b, ua, ub))


def _on_surface(ctx, R, verts, what, limit=60):
    step = max(1, len(verts) // limit)
    dom = R.domain()
    for v in verts[::step]:
        # stored uv are fractions of the parametric domain (the mesh always spans the unit square)
        uv = [min(1.0, max(0.0, x)) for x in v.uv]
        r, sc = R.point([dom[0][0] + F(uv[0]) * (dom[0][1] - dom[0][0]), dom[1][0] + F(uv[1]) * (dom[1][1] - dom[1][0])])
        ctx.check(ref.vec_close(list(v.data), r, sc, 1e-9), "vertex-off-surface",
                  "%s: vertex %d at uv %r is %r, the surface there is %r" % (what, v.id, list(v.uv), list(v.data), ref.fl(r)))
        ctx.check(all(-1e-12 <= x <= 1.0 + 1e-12 for x in v.uv), "vertex-uv-out-of-range", "%s: vertex %d has uv %r outside the unit square" % (what, v.id, list(v.uv)))


# ------------------------------------------------------------------------------------------------ triangles
@st.composite
def _tri_cases(draw, tier):
    d = _surface(draw, tier == "thorough")
    k, nu, nv = draw(_sizes(tier))
    return {"defn": d, "k": k, "nu": nu, "nv": nv, "via": draw(st.sampled_from(["surface", "surface", "class"]))}


def check_triangles(case, ctx):
    d, k, nu, nv = case["defn"], case["k"], case["nu"], case["nv"]
    obj = build.make(d)
    R = build.exact_from(d, obj)
    obj.sample_size_u, obj.sample_size_v = nu, nv
    ctx.check([obj.sample_size_u, obj.sample_size_v] == [nu, nv], "sample-size", "sample sizes %r" % ([obj.sample_size_u, obj.sample_size_v],))
    if case["via"] == "surface":
        if nu % 2:
            # a moved copy of the surface (another surface) is meshed first, with another density
            from geomdl import operations
            other = operations.translate(obj, [8.0, -4.0, 2.0])
            other.sample_size_u, other.sample_size_v = 3, 4
            other.tessellate()
            ctx.check(len(other.vertices) == 12, "vertex-count", "a translated copy meshed with 3x4 samples has %d vertices" % len(other.vertices))
            ctx.label("moved-copy-meshed-first")
        obj.tessellate(vertex_spacing=k)
        verts, faces = obj.vertices, obj.faces
    else:
        t = tessellate.TriangularTessellate()
        t.tessellate(obj.evalpts, size_u=nu, size_v=nv, vertex_spacing=k)
        verts, faces = t.vertices, t.faces
    mu, mv = (nu - 1) // k + 1, (nv - 1) // k + 1
    what = "triangular tessellation %dx%d samples, spacing %d" % (nu, nv, k)
    ctx.nt(mu != mv, "nu'!=nv'")
    ctx.nt(k >= 2, "spacing>=2")
    ctx.label("spacing:%d" % k)
    ctx.label("via:" + case["via"])
    ctx.label("domain-not-unit-square", bool(d.get("unclamped")) or (bool(d.get("affine")) and not d["normalize"]))
    ctx.check(len(verts) == mu * mv, "vertex-count", "%s: %d vertices, expected %d x %d" % (what, len(verts), mu, mv))
    ctx.check(len(faces) == 2 * (mu - 1) * (mv - 1), "face-count", "%s: %d triangles, expected %d" % (what, len(faces), 2 * (mu - 1) * (mv - 1)))
    byid, edges = _mesh_validity(ctx, verts, faces, 3, what)
    _check_disc(ctx, verts, faces, edges, byid, what)
    _on_surface(ctx, R, verts, what)
    if case["via"] == "surface" and nu % 3 == 0 and not d.get("unclamped"):
        # the two pieces of a split are surfaces of their own: each is meshed from its own samples
        from geomdl import operations
        (a_, b_), _dv = obj.domain
        pcs = operations.split_surface_u(obj, a_ + 0.5 * (b_ - a_))
        meshes = []
        for pc in pcs:
            pc.sample_size_u, pc.sample_size_v = 3, 4
            pc.tessellate()
        for i_, pc in enumerate(pcs):
            vd = [list(v.data) for v in pc.vertices]
            ev = [list(q) for q in pc.evalpts]
            ctx.check(len(vd) == 12 and all(all(abs(x - y) <= 1e-12 * (1 + abs(y)) for x, y in zip(g_, e_)) for g_, e_ in zip(vd, ev)), "piece-mesh",
                      "%s: piece %d of a split meshed with 3x4 samples has %d vertices; first vertex %r, its first sampled point %r" % (what, i_, len(vd), vd[:1], ev[:1]))
            ctx.check(all(all(0 <= j_ < len(vd) for j_ in f_.data) for f_ in pc.faces), "face-index-range", "%s: piece %d of a split has faces out of range" % (what, i_))
        ctx.label("split-pieces-meshed")
    if case["via"] == "surface" and nv % 2 and d["size"][1] > d["degree"][1] + 1:
        # the same surface gets another v knot vector (first interior knot moved) and is meshed again: the mesh follows
        kvv = list(build.kvs_of(obj)[1])
        pv_ = d["degree"][1]
        kvv[pv_ + 1] = (kvv[pv_] + kvv[pv_ + 1]) / 2.0
        obj.knotvector_v = kvv
        obj.tessellate(vertex_spacing=k)
        R2 = build.exact(obj)
        ctx.label("meshed-again-after-knot-change")
        ctx.check(len(obj.vertices) == mu * mv, "vertex-count", "%s, second mesh after a knot vector change: %d vertices" % (what, len(obj.vertices)))
        _on_surface(ctx, R2, obj.vertices, what + " (second mesh after a knot vector change)")


# ------------------------------------------------------------------------------------------------ quads
@st.composite
def _quad_cases(draw, tier):
    d = _surface(draw, tier == "thorough")
    _, nu, nv = draw(_sizes(tier, kmax=1))
    return {"defn": d, "nu": nu, "nv": nv, "via": draw(st.sampled_from(["surface", "class"]))}


def check_quads(case, ctx):
    d, nu, nv = case["defn"], case["nu"], case["nv"]
    obj = build.make(d)
    R = build.exact_from(d, obj)
    obj.sample_size_u, obj.sample_size_v = nu, nv
    ev = [list(p) for p in obj.evalpts]
    if case["via"] == "surface":
        obj.tessellator = tessellate.QuadTessellate()
        obj.tessellate()
        verts, faces = obj.vertices, obj.faces
    else:
        t = tessellate.QuadTessellate()
        t.tessellate(ev, size_u=nu, size_v=nv)
        verts, faces = t.vertices, t.faces
    what = "quad tessellation %dx%d samples (%s)" % (nu, nv, case["via"])
    ctx.nt(nu != nv, "nu!=nv")
    ctx.label("via:" + case["via"])
    ctx.check(len(verts) == nu * nv, "vertex-count", "%s: %d vertices, expected %d" % (what, len(verts), nu * nv))
    ctx.check(len(faces) == (nu - 1) * (nv - 1), "face-count", "%s: %d quads, expected %d" % (what, len(faces), (nu - 1) * (nv - 1)))
    byid, edges = _mesh_validity(ctx, verts, faces, 4, what)
    for i, v in enumerate(verts):
        ctx.check(all(abs(a - b) <= 1e-9 * (1 + abs(b)) for a, b in zip(v.data, ev[i])), "quad-vertex-position", "%s: vertex %d is %r, sampled point %r" % (what, i, list(v.data), ev[i]))
    want = set()
    for i in range(nu - 1):
        for j in range(nv - 1):
            want.add(frozenset([j + nv * i, j + nv * (i + 1), j + 1 + nv * (i + 1), j + 1 + nv * i]))
    got = set(frozenset(f.data) for f in faces)
    ctx.check(got == want, "quad-not-grid-neighbours", "%s: quads do not connect the four grid neighbours" % what)
    # consistent orientation: every interior edge is traversed in opposite directions by its two quads
    for (a, b), c in edges.items():
        ctx.check(c == 1 and edges.get((b, a), 0) <= 1, "orientation-inconsistent", "%s: directed edge (%d,%d) used %d times" % (what, a, b, c))
    _on_surface(ctx, R, verts, what)


# ------------------------------------------------------------------------------------------------ trimmed
@st.composite
def _trim_cases(draw, tier):
    d = _surface(draw, False)
    n = draw(st.integers(5, 14 if tier == "thorough" else 10))
    m = draw(st.integers(5, 14 if tier == "thorough" else 10))
    style = draw(st.sampled_from(["star", "spline2", "spline1", "rect", "convex", "star", "spline2", "corner", "notch"]))
    cx, cy = draw(st.integers(6, 10)), draw(st.integers(6, 10))
    nv = draw(st.integers(3, 8))
    radii = [draw(st.integers(2, 5)) for _ in range(nv)]
    return {"defn": d, "nu": n, "nv": m, "style": style, "c": [cx, cy], "radii": radii, "sense": draw(st.sampled_from([0, 1, None])),
            "rot": draw(st.integers(0, 15)), "cw": draw(st.booleans())}


def _trim_polygon(case):
    """Closed polygon on the 1/16 grid strictly inside (0,1)^2, star-shaped around c."""
    cx, cy = case["c"]
    n = len(case["radii"])
    pts = []
    if case["style"] == "corner":
        # a chamfered corner: the closed trim runs along two borders of the parametric rectangle
        a_, b_ = case["radii"][0] * 2 / 16.0, case["radii"][1] * 2 / 16.0
        return [[0.0, 0.0], [a_, 0.0], [0.0, b_]]
    if case["style"] == "notch":
        # a notch cut into the lower border
        a_, w_, h_ = cx / 16.0, case["radii"][0] / 16.0, case["radii"][1] * 2 / 16.0
        return [[a_ - w_, 0.0], [a_ + w_, 0.0], [a_, h_]]
    if case["style"] == "rect":
        r1, r2 = case["radii"][0], case["radii"][1]
        pts = [[cx - r1, cy - r2], [cx + r1, cy - r2], [cx + r1, cy + r2], [cx - r1, cy + r2]]
    else:
        for i, r in enumerate(case["radii"]):
            if case["style"] == "convex":
                r = case["radii"][0]
            ang = 2 * math.pi * (i + case["rot"] / 16.0) / n
            pts.append([cx + round(r * math.cos(ang)), cy + round(r * math.sin(ang))])
    out = []
    for p in pts:
        q = [min(15, max(1, p[0])) / 16.0, min(15, max(1, p[1])) / 16.0]
        if not out or out[-1] != q:
            out.append(q)
    if len(out) >= 2 and out[0] == out[-1]:
        out.pop()
    return out


def _simple(poly):
    """poly (open list) is a simple polygon: no two non-adjacent edges intersect, non-zero area."""
    n = len(poly)
    if n < 3:
        return False
    P = [(F(x), F(y)) for x, y in poly]
    area = sum(P[i][0] * P[(i + 1) % n][1] - P[(i + 1) % n][0] * P[i][1] for i in range(n))
    if area == 0:
        return False

    def seg_inter(a, b, c, d):
        o1, o2, o3, o4 = ref.orient(a, b, c), ref.orient(a, b, d), ref.orient(c, d, a), ref.orient(c, d, b)
        if ((o1 > 0) != (o2 > 0)) and ((o3 > 0) != (o4 > 0)) and o1 != 0 and o2 != 0 and o3 != 0 and o4 != 0:
            return True
        return any(ref.on_segment(p, q, r) for p, q, r in ((c, a, b), (d, a, b), (a, c, d), (b, c, d)))
    for i in range(n):
        for j in range(i + 1, n):
            if j == i or (j + 1) % n == i or (i + 1) % n == j:
                continue
            if seg_inter(P[i], P[(i + 1) % n], P[j], P[(j + 1) % n]):
                return False
    # adjacent edges must not fold back
    for i in range(n):
        if ref.orient(P[i], P[(i + 1) % n], P[(i + 2) % n]) == 0:
            return False
    return True


def _dist_seg(p, a, b):
    ax, ay, bx, by = a[0], a[1], b[0], b[1]
    dx, dy = bx - ax, by - ay
    L = dx * dx + dy * dy
    t = 0.0 if L == 0 else max(0.0, min(1.0, ((p[0] - ax) * dx + (p[1] - ay) * dy) / L))
    return math.hypot(p[0] - (ax + t * dx), p[1] - (ay + t * dy))


def check_trimmed(case, ctx):
    d, nu, nv = case["defn"], case["nu"], case["nv"]
    poly = _trim_polygon(case)
    if not _simple(poly):
        raise Skip("generated trim polygon is not simple")
    obj = build.make(d)
    R = build.exact_from(d, obj)
    obj.sample_size_u, obj.sample_size_v = nu, nv
    if case.get("cw"):
        poly = poly[::-1]          # the trim curve may run in either direction
    ctx.label("trim-clockwise", bool(case.get("cw")))
    closed = poly + [poly[0]]
    style = case["style"]
    if style in ("spline1", "spline2"):
        p = 1 if style == "spline1" else 2
        c = BSpline.Curve()
        c.degree = p
        c.ctrlpts = [list(q) for q in closed]
        n = len(closed)
        c.knotvector = [0.0] * (p + 1) + [(i + 1) / float(n - p) for i in range(n - p - 1)] + [1.0] * (p + 1)
        c.delta = 0.02
        trim = c
    else:
        trim = freeform.Freeform()
        trim.evaluate(points=[list(q) for q in closed])
    if case["sense"] is not None:
        trim.opt = ["reversed", case["sense"]]
    obj.trims = [trim]
    obj.tessellator = tessellate.TrimTessellate()
    obj.tessellate()
    verts, faces = obj.vertices, obj.faces
    what = "trimmed tessellation %dx%d, %s trim, sense %r" % (nu, nv, style, case["sense"])
    ctx.nt(True, "trimmed")
    ctx.label("style:" + style)
    ctx.label("sense:%r" % (case["sense"],))
    byid, edges = _mesh_validity(ctx, verts, faces, 3, what)
    for (a, b), cnt in edges.items():
        ctx.check(cnt == 1, "edge-used-twice-same-direction", "%s: directed edge (%d,%d) used by %d triangles" % (what, a, b, cnt))
    _on_surface(ctx, R, verts, what)
    # coverage: away from the trim boundary, kept triangles cover exactly the untrimmed region
    tpoly = [list(q) for q in trim.evalpts]
    if tpoly[0] != tpoly[-1]:
        tpoly.append(tpoly[0])
    keep_inside = bool(case["sense"])           # reversed=1 keeps the enclosed area, 0/None trims it
    cell = math.hypot(1.0 / (nu - 1), 1.0 / (nv - 1))
    tris = [[tuple(byid[i].uv) for i in f.data] for f in faces]
    M = 12
    asserted = 0
    for i in range(M):
        for j in range(M):
            q = ((2 * i + 1) / (2.0 * M), (2 * j + 1) / (2.0 * M))
            if min(_dist_seg(q, tpoly[k], tpoly[k + 1]) for k in range(len(tpoly) - 1)) <= 1.05 * cell:
                continue
            inside = ref.winding_number(q, tpoly) != 0
            should_cover = inside if keep_inside else not inside
            covered = any(_in_tri(q, t) for t in tris)
            asserted += 1
            ctx.check(covered == should_cover, "trim-coverage",
                      "%s: parametric point %r is %s the trim curve, so it should be %s, but it is %s by the kept triangles" % (
                          what, q, "inside" if inside else "outside", "covered" if should_cover else "removed", "covered" if covered else "not covered"))
    ctx.label("lattice-points-asserted>=40", asserted >= 40)


def _in_tri(q, t):
    a, b, c = t
    if abs(_orient2(a, b, c)) <= 1e-14:
        return False        # a zero-area sliver covers nothing
    d1, d2, d3 = _orient2(a, b, q), _orient2(b, c, q), _orient2(c, a, q)
    eps = 1e-12
    return (d1 >= -eps and d2 >= -eps and d3 >= -eps) or (d1 <= eps and d2 <= eps and d3 <= eps)


# ------------------------------------------------------------------------------------------------ exports
@st.composite
def _export_cases(draw, tier):
    n = draw(st.sampled_from([1, 1, 2, 3]))
    shapes = []
    for _ in range(n):
        d = _surface(draw, False)
        sc = draw(st.sampled_from([0, 0, 0, -10, -14, -24]))          # small parts in large units: exact power-of-two scaling
        if sc:
            d["P"] = [[c * 2.0 ** sc for c in q] for q in d["P"]]
            d["scale_exp"] = sc
        k, nu, nv = draw(_sizes("quick", kmax=3))
        shapes.append({"defn": d, "nu": nu, "nv": nv})
    k = draw(st.integers(1, 2))
    # spacing must divide every sample size minus one
    for s in shapes:
        s["nu"] = ((s["nu"] - 1) // k) * k + 1 if (s["nu"] - 1) >= k else k + 1
        s["nv"] = ((s["nv"] - 1) // k) * k + 1 if (s["nv"] - 1) >= k else k + 1
    return {"shapes": shapes, "k": k, "fmt": draw(st.sampled_from(["obj", "off", "stl", "stlb", "vtk"]))}


def _fresh(case):
    objs = []
    for s in case["shapes"]:
        o = build.make(s["defn"])
        o.sample_size_u, o.sample_size_v = s["nu"], s["nv"]
        objs.append(o)
    return objs


def _check_vtk(case, ctx):
    """VTK polydata (geomdl.exchange_vtk) with tessellate=True: the sampled points with the triangles of the default tessellation,
    or the control points with the quads of the control net; members of a container follow one another."""
    from geomdl import exchange_vtk
    objs = _fresh(case)
    target = objs[0] if len(objs) == 1 else build.container(multi.SurfaceContainer, objs, case["shapes"][0]["nu"] + case["shapes"][0]["nv"])
    ctx.nt(len(objs) >= 2, "container>=2")
    ctx.nt(any(s["nu"] != s["nv"] for s in case["shapes"]), "nu!=nv")
    ctx.label("format:vtk")
    ctx.label("surfaces:%d" % len(objs))
    for ptype, arity in (("evalpts", 3), ("ctrlpts", 4)):
        polys = []          # expected polygons as coordinate tuples, in export order
        npts = 0
        for o in _fresh(case):
            if ptype == "evalpts":
                o.tessellate()
                vs, fs = [list(v.data) for v in o.vertices], [list(f.data) for f in o.faces]
            else:
                t = tessellate.QuadTessellate()
                t.tessellate(o.ctrlpts, size_u=o.ctrlpts_size_u, size_v=o.ctrlpts_size_v)
                vs, fs = [list(v.data) for v in t.vertices], [list(f.data) for f in t.faces]
            npts += len(vs)
            polys += [[vs[i] for i in f] for f in fs]
        what = "vtk polydata (%s, tessellate=True) of %d surface(s)" % (ptype, len(objs))
        text = exchange_vtk.export_polydata_str(target, point_type=ptype, tessellate=True)
        lines = text.split("\n")
        ip = next(i for i, l in enumerate(lines) if l.startswith("POINTS "))
        n = int(lines[ip].split()[1])
        V = [[float(x) for x in l.split()] for l in lines[ip + 1:ip + 1 + n]]
        ig = next(i for i, l in enumerate(lines) if l.startswith("POLYGONS "))
        nf, nints = int(lines[ig].split()[1]), int(lines[ig].split()[2])
        Fs = [[int(x) for x in l.split()] for l in lines[ig + 1:ig + 1 + nf]]
        ctx.check(n == npts and nf == len(polys) and nints == (arity + 1) * nf, "export-counts",
                  "%s: %d points, %d polygons (%d integers); expected %d / %d" % (what, n, nf, nints, npts, len(polys)))
        for f, poly in zip(Fs, polys):
            ctx.check(f[0] == arity and len(f) == arity + 1 and all(0 <= i < n for i in f[1:]), "export-index-range", "%s: polygon line %r" % (what, f))
            if all(0 <= i < n for i in f[1:]):
                got = [V[i] for i in f[1:]]
                ctx.check(all(all(abs(x - y) <= 1e-12 * (1.0 + abs(y)) for x, y in zip(g, t)) for g, t in zip(got, poly)), "export-face-coordinates",
                          "%s: polygon %r resolves to %r, expected %r" % (what, f, got, poly))


def check_exports(case, ctx):
    k, fmt = case["k"], case["fmt"]
    if fmt == "vtk":
        return _check_vtk(case, ctx)
    # reference meshes from independent fresh objects
    refs = []
    for o in _fresh(case):
        o.tessellate(vertex_spacing=k)
        refs.append(([list(v.data) for v in o.vertices], [list(f.data) for f in o.faces]))
    objs = _fresh(case)
    target = objs[0] if len(objs) == 1 else build.container(multi.SurfaceContainer, objs, case["shapes"][0]["nu"] + case["shapes"][0]["nv"])
    pre = len(objs) == 1 and case["shapes"][0]["nu"] % 2 == 1
    ekw = {"update_delta": False}
    if pre:
        # the object was tessellated before with ANOTHER spacing; the export (default arguments) must describe the requested one
        other = 2 if k == 1 else 1
        if (case["shapes"][0]["nu"] - 1) % other == 0 and (case["shapes"][0]["nv"] - 1) % other == 0:
            objs[0].tessellate(vertex_spacing=other)
            _ = objs[0].faces
            ekw = {}
            ctx.label("export-after-other-tessellation")
    ctx.nt(len(objs) >= 2, "container>=2")
    ctx.nt(k >= 2, "spacing>=2")
    ctx.nt(any(s["nu"] != s["nv"] for s in case["shapes"]), "nu!=nv")
    ctx.label("format:" + fmt)
    ctx.label("surfaces:%d" % len(objs))
    all_tris = []      # expected triangles as coordinate triples, in export order
    for vs, fs in refs:
        for f in fs:
            all_tris.append([vs[i] for i in f])
    nvert = sum(len(vs) for vs, _ in refs)
    what = "%s export of %d surface(s), spacing %d" % (fmt, len(objs), k)

    def close3(a, b, tol):
        return all(abs(x - y) <= tol * (1.0 + abs(y)) for x, y in zip(a, b))
    if fmt in ("obj", "off"):
        text = exchange.export_obj_str(target, vertex_spacing=k, **ekw) if fmt == "obj" else exchange.export_off_str(target, vertex_spacing=k, **ekw)
        lines = [l for l in text.split("\n") if l.strip() and not l.startswith("#")]
        if fmt == "off":
            ctx.check(lines[0].strip() == "OFF", "off-header", "%s: first line %r" % (what, lines[0]))
            hv, hf, _ = [int(x) for x in lines[1].split()]
            body = lines[2:]
            V = [[float(x) for x in l.split()] for l in body[:hv]]
            Fs = [[int(x) for x in l.split()] for l in body[hv:hv + hf]]
            ctx.check(hv == nvert and hf == len(all_tris) and len(body) == hv + hf, "export-counts", "%s: header says %d vertices %d faces; expected %d / %d; body has %d lines" % (what, hv, hf, nvert, len(all_tris), len(body)))
            ctx.check(all(f[0] == 3 for f in Fs), "off-face-arity", "%s: a face line does not start with 3" % what)
            Fi = [f[1:] for f in Fs]
            base = 0
        else:
            V = [[float(x) for x in l.split()[1:]] for l in lines if l.startswith("v ")]
            Fi = [[int(x.split("/")[0]) for x in l.split()[1:]] for l in lines if l.startswith("f ")]
            ctx.check(len(V) == nvert and len(Fi) == len(all_tris), "export-counts", "%s: %d vertices %d faces; expected %d / %d" % (what, len(V), len(Fi), nvert, len(all_tris)))
            base = 1
        for fi, tri in zip(Fi, all_tris):
            ctx.check(all(base <= i < len(V) + base for i in fi), "export-index-range", "%s: face %r outside %d..%d" % (what, fi, base, len(V) + base - 1))
            got = [V[i - base] for i in fi]
            ctx.check(all(close3(g, t, 1e-12) for g, t in zip(got, tri)), "export-face-coordinates",
                      "%s: face %r resolves to %r, the tessellation's triangle is %r" % (what, fi, got, tri))
    else:
        binary = fmt == "stlb"
        data = exchange.export_stl_str(target, vertex_spacing=k, binary=binary, **ekw)
        facets = []
        if binary:
            ctx.check(isinstance(data, (bytes, bytearray)) and len(data) >= 84, "stl-binary-header", "%s: binary STL shorter than its header" % what)
            cnt = struct.unpack("<i", data[80:84])[0]
            ctx.check(len(data) == 84 + 50 * cnt, "export-counts", "%s: header says %d facets, length %d" % (what, cnt, len(data)))
            for i in range(cnt):
                vals = struct.unpack("<12f", data[84 + 50 * i:84 + 50 * i + 48])
                facets.append((list(vals[:3]), [list(vals[3:6]), list(vals[6:9]), list(vals[9:12])]))
            tol = 2e-6
        else:
            toks = data.split()
            i = 0
            cur_n, cur_v = None, []
            while i < len(toks):
                if toks[i] == "normal":
                    cur_n = [float(x) for x in toks[i + 1:i + 4]]
                    cur_v = []
                    i += 4
                elif toks[i] == "vertex":
                    cur_v.append([float(x) for x in toks[i + 1:i + 4]])
                    i += 4
                elif toks[i] == "endfacet":
                    facets.append((cur_n, cur_v))
                    i += 1
                else:
                    i += 1
            tol = 1e-12
        ctx.check(len(facets) == len(all_tris), "export-counts", "%s: %d facets, expected %d" % (what, len(facets), len(all_tris)))
        for (nrm, vs), tri in zip(facets, all_tris):
            ctx.check(len(vs) == 3 and all(close3(g, t, tol) for g, t in zip(vs, tri)), "export-face-coordinates", "%s: facet %r, tessellation triangle %r" % (what, vs, tri))
            e1 = [b - a for a, b in zip(tri[0], tri[1])]
            e2 = [b - a for a, b in zip(tri[1], tri[2])]
            cr = [e1[1] * e2[2] - e1[2] * e2[1], e1[2] * e2[0] - e1[0] * e2[2], e1[0] * e2[1] - e1[1] * e2[0]]
            mag = math.sqrt(sum(x * x for x in cr))
            nm = math.sqrt(sum(x * x for x in nrm))
            edge = max(max(abs(x) for x in e1), max(abs(x) for x in e2), max(abs(a - b) for a, b in zip(tri[0], tri[2])))
            if mag <= 1e-7 * edge * edge:
                # a sliver or collapsed triangle (relative to its own edge lengths) has no reliable normal
                ctx.check(nm <= 1.0 + 1e-6, "stl-normal", "%s: degenerate facet with normal %r" % (what, nrm))
            else:
                cosang = sum(a * b for a, b in zip(cr, nrm)) / (mag * max(nm, 1e-300))
                ctx.check(nm > 0 and cosang >= 1.0 - 1e-5, "stl-normal", "%s: facet normal %r is not parallel and equally oriented to (v1-v0)x(v2-v1) = %r" % (what, nrm, cr))
    # file forms write the same content
    import os
    import shutil
    import tempfile
    from vp.core import verif_root
    base = os.path.join(verif_root(), ".work")
    os.makedirs(base, exist_ok=True)
    tmp = tempfile.mkdtemp(prefix="c15-", dir=base)
    try:
        if case["shapes"][0]["nv"] % 2:
            objs2 = _fresh(case)
            target2 = objs2[0] if len(objs2) == 1 else multi.SurfaceContainer(*objs2)
        else:
            target2 = target          # the very same object(s) exported a second time
            ctx.label("same-object-exported-twice")
        fn = os.path.join(tmp, "mesh." + fmt)
        if fmt == "obj":
            exchange.export_obj(target2, fn, vertex_spacing=k, update_delta=False)
            same = open(fn).read() == text
        elif fmt == "off":
            exchange.export_off(target2, fn, vertex_spacing=k, update_delta=False)
            same = open(fn).read() == text
        else:
            exchange.export_stl(target2, fn, vertex_spacing=k, update_delta=False, binary=(fmt == "stlb"))
            same = (open(fn, "rb").read() == data) if fmt == "stlb" else (open(fn).read() == data)
    finally:
        shutil.rmtree(tmp, ignore_errors=True)
    ctx.check(same, "file-vs-string", "%s: the file form and the string form differ" % what)


# ------------------------------------------------------------------------------------------------ containers
@st.composite
def _cont_cases(draw, tier):
    n = draw(st.integers(2, 3))
    shapes = [_surface(draw, False) for _ in range(n)]
    return {"shapes": shapes, "n": draw(st.integers(2, 7)), "k": draw(st.integers(1, 2)), "twice": draw(st.booleans())}


def check_container(case, ctx):
    """The aggregated mesh of a SurfaceContainer: consecutively numbered vertices, faces in range, and every
    face reproduces the triangle of the element's own tessellation."""
    n, k = case["n"], case["k"]
    quad = case["n"] % 4 == 2          # the quadrilateral algorithm for all members (every sample is a vertex)
    if quad:
        k = 1
    tkw = {} if quad else {"vertex_spacing": k}          # (the quadrilateral algorithm has no spacing option)
    n = ((n - 1) // k) * k + 1 if n - 1 >= k else k + 1
    refs = []
    for d in case["shapes"]:
        o = build.make(d)
        o.sample_size_u, o.sample_size_v = n, n
        if quad:
            o.tessellator = tessellate.QuadTessellate()
        o.tessellate(**tkw)
        refs.append(([list(v.data) for v in o.vertices], [list(f.data) for f in o.faces]))
    objs = [build.make(d) for d in case["shapes"]]
    late = case["twice"] and len(objs) >= 2
    cont = build.container(multi.SurfaceContainer, objs[:-1] if late else objs, len(case["shapes"][0]["P"]) + case["n"])
    # containers hand their delta to the elements (the container's own sample_size uses another convention, 1/(n-1),
    # which is not part of this property), so the density is set through delta
    cont.delta = 1.0 / n
    if case["n"] % 3 == 0:
        # a refused density (outside (0, 1)) leaves the one that was set
        try:
            cont.delta = 1.0
        except ValueError:
            ctx.label("after-a-refused-delta")
    if case["n"] % 2:
        cont.tessellator = tessellate.TriangularTessellate()        # the documented way to choose the algorithm for all members
        ctx.label("tessellator-set-through-container")
    if quad:
        cont.tessellator = tessellate.QuadTessellate()
        ctx.label("quad-tessellator-set-through-container")
    cont.tessellate(**tkw)
    if case["twice"]:
        _ = cont.vertices, cont.faces
        cont.tessellate(**tkw)          # a second call must not renumber anything
        if late:
            # the last surface joins after the first tessellation: the aggregate is rebuilt, ids stay consecutive
            if quad:
                objs[-1].tessellator = tessellate.QuadTessellate()          # (a member that joins later brings its own algorithm along)
            cont.add(objs[-1])
            cont.tessellate(**tkw)
    verts, faces = cont.vertices, cont.faces
    what = "container of %d surfaces, %dx%d samples, spacing %d%s" % (len(refs), n, n, k, ", tessellated twice" if case["twice"] else "")
    ctx.nt(True, "container>=2")
    ctx.label("tessellate-twice", case["twice"])
    ctx.check(len(verts) == sum(len(v) for v, _ in refs) and len(faces) == sum(len(f) for _, f in refs), "container-counts",
              "%s: %d vertices / %d faces, the elements have %d / %d" % (what, len(verts), len(faces), sum(len(v) for v, _ in refs), sum(len(f) for _, f in refs)))
    ids = [v.id for v in verts]
    ctx.check(ids == list(range(len(verts))), "vertex-ids", "%s: aggregated vertex ids are not 0..V-1: %r..." % (what, ids[:14]))
    fids = [f.id for f in faces]
    ctx.check(fids == list(range(len(faces))), "face-ids", "%s: aggregated face ids are not 0..F-1: %r..." % (what, fids[:14]))
    expect = []
    for vs, fs in refs:
        for f in fs:
            expect.append([vs[i] for i in f])
    pos = {v.id: list(v.data) for v in verts}
    for f, tri in zip(faces, expect):
        dd = list(f.data)
        ctx.check(all(0 <= i < len(verts) for i in dd), "face-index-range", "%s: face %r out of range" % (what, dd))
        got = [pos.get(i) for i in dd]
        ctx.check(all(g is not None and all(abs(a - b) <= 1e-12 * (1 + abs(b)) for a, b in zip(g, t)) for g, t in zip(got, tri)), "container-face-coordinates",
                  "%s: face %r resolves to %r, the element's triangle is %r" % (what, dd, got, tri))


SUBCHECKS = [
    SubCheck("triangles", _tri_cases, check_triangles, quick=200, thorough=1000,
             rule="non-trivial = different vertex counts per direction, or vertex spacing >= 2"),
    SubCheck("quads", _quad_cases, check_quads, quick=150, thorough=600,
             rule="non-trivial = nu != nv"),
    SubCheck("trimmed", _trim_cases, check_trimmed, quick=150, thorough=800, shards_quick=2,
             rule="every case is trimmed (polygon / spline trims of both senses); not-simple generated polygons are skipped and counted"),
    SubCheck("exports", _export_cases, check_exports, quick=200, thorough=800,
             rule="non-trivial = container of >= 2 surfaces, or spacing >= 2, or nu != nv"),
    SubCheck("container", _cont_cases, check_container, quick=120, thorough=500, shards_thorough=8,
             rule="every case aggregates the meshes of 2-3 surfaces in a SurfaceContainer"),
]
