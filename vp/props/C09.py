"""C09 - weights, weighted and unweighted control points stay mutually consistent (DESIGN.md section 5, C09)."""
import copy
from fractions import Fraction as F

from hypothesis import strategies as st

from geomdl import compatibility, convert, CPGen, NURBS, BSpline, operations

from vp import gen, build, ref, shape
from vp.core import SubCheck

RULE = ("Cases: generated NURBS curves/surfaces/volumes with histories of ctrlpts / weights / ctrlptsw setter calls and "
        "view reads in any order (model = list of points + list of weights); helper conversions both ways in 1-D and "
        "2-D; weighted grids of all sizes 1..6 with scalar and per-point weights; conversions BSpline <-> NURBS; "
        "uniform weight scaling.")
ASSUMPTIONS = ["views compared to 1e-12 relative (all generated values are dyadic, so products/quotients are exact)"]


def _close(a, b, tol=1e-12):
    return abs(a - b) <= tol * (1.0 + abs(b))


def _pts_equal(a, b):
    return len(a) == len(b) and all(len(p) == len(q) and all(_close(x, y) for x, y in zip(p, q)) for p, q in zip(a, b))


# ------------------------------------------------------------------------------------------------ setter/reader histories
@st.composite
def _views_cases(draw, tier):
    big = tier == "thorough"
    d = draw(gen.spline(rational=True, max_p=3, max_extra=3, vol_max_p=2, vol_max_extra=1))
    count = len(d["P"])
    nsteps = draw(st.integers(2, 14 if big else 8))
    steps = []
    for _ in range(nsteps):
        op = draw(st.sampled_from(["set_P", "set_W", "set_Pw", "set_Pw_method", "read_P", "read_W", "read_Pw", "read_2d",
                                   "read_P", "read_W", "eval", "fork", "switch"]))
        s = {"op": op}
        if op == "set_P":
            s["P"] = draw(gen.points(count, d["dim"]))
        elif op == "set_W":
            s["W"] = draw(gen.weights(count, force="varied"))
        elif op in ("set_Pw", "set_Pw_method"):
            s["P"] = draw(gen.points(count, d["dim"]))
            s["W"] = draw(gen.weights(count, force="varied"))
        steps.append(s)
    return {"defn": d, "steps": steps, "build_mode": draw(st.sampled_from(["w", "pw"]))}


def check_views(case, ctx):
    d = case["defn"]
    obj = build.make(d, mode=case["build_mode"])
    P = [list(p) for p in d["P"]]
    W = list(d["W"])
    szs = d["size"]
    kinds = set()
    seq = []
    others = []          # (object, P, W) of deep copies / originals left behind: their views must keep following THEIR model
    for i, s in enumerate(case["steps"]):
        op = s["op"]
        seq.append(op)
        if op == "fork":
            # continue on a deep copy; the object left behind keeps its own model
            others.append((obj, [list(p) for p in P], list(W)))
            if i % 2:
                _ = obj.ctrlpts, obj.weights          # the views of the source were looked at before the copy is taken
            obj = copy.deepcopy(obj)
            continue
        if op == "switch":
            if others:
                others.append((obj, [list(p) for p in P], list(W)))
                obj, P, W = others.pop(0)
            continue
        if op == "set_P":
            if others or int(s["P"][0][0] * 8) % 3 == 0:
                # read / edit the points in place / write back: the getter hands out lists, the user changes coordinates and assigns
                Pl = obj.ctrlpts
                for j, q in enumerate(s["P"]):
                    for c, x in enumerate(q):
                        Pl[j][c] = x
                obj.ctrlpts = Pl
                ctx.label("ctrlpts-edited-in-place")
            else:
                obj.ctrlpts = [list(p) for p in s["P"]]
            P = [list(p) for p in s["P"]]
            kinds.add("P")
        elif op == "set_W":
            if others or s["W"][0] in (0.25, 0.5, 1.5):
                # the read / edit in place / write back idiom: the getter hands out a list, the user changes it and assigns it
                w = obj.weights
                for j, x in enumerate(s["W"]):
                    w[j] = x
                obj.weights = w
                ctx.label("weights-edited-in-place")
            else:
                obj.weights = list(s["W"])
            W = list(s["W"])
            kinds.add("W")
        elif op == "set_Pw" and s["W"][0] in (0.75, 3.0):
            # no new values: the list a getter handed out is assigned back as it is (the three views stay what they were)
            if i % 2:
                obj.ctrlptsw = obj.ctrlptsw
            else:
                obj.set_ctrlpts(obj.ctrlptsw, *szs)
            ctx.label("getter-result-assigned-back")
        elif op == "set_Pw":
            obj.ctrlptsw = build.homogeneous(s["P"], s["W"])
            P, W = [list(p) for p in s["P"]], list(s["W"])
            kinds.add("Pw")
        elif op == "set_Pw_method":
            obj.set_ctrlpts(build.homogeneous(s["P"], s["W"]), *szs)
            P, W = [list(p) for p in s["P"]], list(s["W"])
            kinds.add("Pw")
        elif op == "read_P":
            ctx.check(_pts_equal(obj.ctrlpts, P), "ctrlpts-view", "step %d (%s): ctrlpts = %r, model %r" % (i, seq, obj.ctrlpts, P))
        elif op == "read_W":
            got = list(obj.weights)
            ctx.check(len(got) == len(W) and all(_close(x, y) for x, y in zip(got, W)), "weights-view",
                      "step %d (%s): weights = %r, model %r" % (i, seq, got, W))
        elif op == "read_Pw":
            ctx.check(_pts_equal(obj.ctrlptsw, build.homogeneous(P, W)), "ctrlptsw-view", "step %d (%s): ctrlptsw differs from model" % (i, seq))
        elif op == "read_2d":
            if d["kind"] == "surface":
                g = obj.ctrlpts2d
                Pw = build.homogeneous(P, W)
                ok = len(g) == szs[0] and all(len(r) == szs[1] for r in g) and all(
                    _pts_equal([g[u][v]], [Pw[v + szs[1] * u]]) for u in range(szs[0]) for v in range(szs[1]))
                ctx.check(ok, "ctrlpts2d-view", "step %d (%s): ctrlpts2d differs from the homogeneous model" % (i, seq))
        elif op == "eval":
            dd = dict(d)
            dd["P"], dd["W"] = P, W
            R = build.exact_from(dd, obj)
            us = [F(a + b) / 2 for a, b in R.domain()]
            r, sc = R.point(us)
            got = obj.evaluate_single(build.call_param(obj, [float(x) for x in us]))
            ctx.check(ref.vec_close(got, r, sc), "evaluation-after-edits", "step %d (%s): point %r, model gives %r" % (i, seq, got, ref.fl(r)))
        # invariant after every step: the stored homogeneous points are P*w (reading ctrlptsw does not touch the caches)
        ctx.check(_pts_equal(obj.ctrlptsw, build.homogeneous(P, W)), "stored-homogeneous",
                  "after step %d (%s) the stored homogeneous points differ from model P*w" % (i, seq))
    # every object left behind by a fork still shows its own model
    for o2, P2, W2 in others:
        ctx.check(_pts_equal(o2.ctrlpts, P2) and len(o2.weights) == len(W2) and all(_close(x, y) for x, y in zip(o2.weights, W2)) and
                  _pts_equal(o2.ctrlptsw, build.homogeneous(P2, W2)), "copy-not-independent",
                  "after %s an object on the other side of a deep copy no longer shows its own control points / weights" % seq)
    ctx.label("forked", bool(others))
    # final: all views
    ctx.check(_pts_equal(obj.ctrlpts, P), "ctrlpts-view", "final ctrlpts differ from model after %s" % seq)
    ctx.check(all(_close(x, y) for x, y in zip(obj.weights, W)) and len(obj.weights) == len(W), "weights-view", "final weights differ after %s" % seq)
    nset = sum(1 for o in seq if o.startswith("set"))
    ctx.nt(build.varied_weights(d) or "W" in kinds or "Pw" in kinds, "varied-weights")
    ctx.nt(nset >= 3 and len(kinds) >= 2, ">=3-setters-of->=2-kinds")
    rbw = any(seq[i].startswith("set") and any(o.startswith("read") for o in seq[i + 1:j]) and seq[j].startswith("set")
              for i in range(len(seq)) for j in range(i + 1, len(seq)))
    ctx.nt(rbw, "read-between-writes")
    swr = any(seq[i].startswith("set") and seq[i + 1].startswith("set") for i in range(len(seq) - 1))
    ctx.label("set-directly-after-set", swr)
    ctx.label("kind:" + d["kind"])


# ------------------------------------------------------------------------------------------------ helper conversions
@st.composite
def _helper_cases(draw, tier):
    n = draw(st.integers(1, 8))
    dim = draw(st.integers(2, 4))
    nu, nv = draw(st.integers(1, 4)), draw(st.integers(1, 4))
    return {"P": draw(gen.points(n, dim)), "W": draw(gen.weights(n, force="varied")),
            "P2": draw(gen.points(nu * nv, dim)), "W2": draw(gen.weights(nu * nv, force="varied")), "nu": nu, "nv": nv}


def check_helpers(case, ctx):
    P, W = case["P"], case["W"]
    ctx.nt(len(set(W)) > 1, "varied-weights")
    ctx.nt(case["nu"] != case["nv"], "non-square-2d")
    Pw = compatibility.combine_ctrlpts_weights(P, W)
    ctx.check(_pts_equal(Pw, build.homogeneous(P, W)), "combine", "combine_ctrlpts_weights(%r, %r) = %r" % (P, W, Pw))
    P1, W1 = compatibility.separate_ctrlpts_weights(Pw)
    ctx.check(_pts_equal(P1, P) and all(_close(x, y) for x, y in zip(W1, W)), "separate-inverts-combine", "separate(combine(P, W)) = %r, %r" % (P1, W1))
    Pw2 = compatibility.combine_ctrlpts_weights(*compatibility.separate_ctrlpts_weights(Pw))
    ctx.check(_pts_equal(Pw2, Pw), "combine-inverts-separate", "combine(separate(Pw)) differs from Pw")
    unit = compatibility.combine_ctrlpts_weights(P)
    ctx.check(_pts_equal(unit, build.homogeneous(P, [1.0] * len(P))), "combine-default-unit", "combine with weights=None is not unit-weighted")
    # (x, y, z, w) <-> (x*w, y*w, z*w, w)
    xyzw = [list(p) + [w] for p, w in zip(P, W)]
    g = compatibility.generate_ctrlptsw(xyzw)
    ctx.check(_pts_equal(g, build.homogeneous(P, W)), "generate_ctrlptsw", "generate_ctrlptsw(%r) = %r" % (xyzw, g))
    ctx.check(_pts_equal(compatibility.generate_ctrlpts_weights(g), xyzw), "generate-inverse-1", "generate_ctrlpts_weights(generate_ctrlptsw(x)) != x")
    ctx.check(_pts_equal(compatibility.generate_ctrlptsw(compatibility.generate_ctrlpts_weights(g)), g), "generate-inverse-2", "generate_ctrlptsw(generate_ctrlpts_weights(x)) != x")
    # 2-D
    nu, nv = case["nu"], case["nv"]
    grid = [[list(case["P2"][v + nv * u]) + [case["W2"][v + nv * u]] for v in range(nv)] for u in range(nu)]
    keep = copy.deepcopy(grid)
    g2 = compatibility.generate_ctrlptsw2d(grid)
    ctx.check(grid == keep, "input-modified", "generate_ctrlptsw2d modified its input")
    ok = len(g2) == nu and all(len(r) == nv for r in g2) and all(
        _pts_equal([g2[u][v]], [[c * grid[u][v][-1] for c in grid[u][v][:-1]] + [grid[u][v][-1]]]) for u in range(nu) for v in range(nv))
    ctx.check(ok, "generate_ctrlptsw2d", "generate_ctrlptsw2d gives %r for %r" % (g2, grid))
    back = compatibility.generate_ctrlpts2d_weights(g2)
    ctx.check(len(back) == nu and all(_pts_equal(a, b) for a, b in zip(back, grid)), "generate-2d-inverse", "generate_ctrlpts2d_weights(generate_ctrlptsw2d(x)) != x")
    again = compatibility.generate_ctrlptsw2d(back)
    ctx.check(all(_pts_equal(a, b) for a, b in zip(again, g2)), "generate-2d-inverse-2", "generate_ctrlptsw2d(generate_ctrlpts2d_weights(x)) != x")
    # the file forms of the 2-D conversions (one line per u row, points separated by ';', coordinates by ','): same results
    import os
    import tempfile

    def _write(path, net):
        with open(path, "w") as fp:
            for row in net:
                fp.write(";".join(",".join(repr(float(c)) for c in pt) for pt in row) + "\n")

    def _read(path):
        with open(path) as fp:
            return [[[float(c) for c in pt.split(",")] for pt in line.strip().split(";")] for line in fp if line.strip()]
    with tempfile.TemporaryDirectory() as tmp:
        f_in, f_w, f_back, f_flip = (os.path.join(tmp, n) for n in ("in.txt", "w.txt", "back.txt", "flip.txt"))
        _write(f_in, grid)
        compatibility.generate_ctrlptsw2d_file(f_in, f_w)
        got_w = _read(f_w)
        ctx.check(len(got_w) == nu and all(len(r) == nv for r in got_w) and all(_pts_equal(a, b) for a, b in zip(got_w, g2)), "generate_ctrlptsw2d_file",
                  "generate_ctrlptsw2d_file wrote %r, generate_ctrlptsw2d gives %r" % (got_w, g2))
        _write(f_w, g2)
        compatibility.generate_ctrlpts2d_weights_file(f_w, f_back)
        got_b = _read(f_back)
        ctx.check(len(got_b) == nu and all(len(r) == nv for r in got_b) and all(_pts_equal(a, b) for a, b in zip(got_b, back)), "generate_ctrlpts2d_weights_file",
                  "generate_ctrlpts2d_weights_file wrote %r, generate_ctrlpts2d_weights gives %r" % (got_b, back))
        compatibility.flip_ctrlpts2d_file(f_in, f_flip)
        got_f = _read(f_flip)
        want_f = [[grid[u][v] for u in range(nu)] for v in range(nv)]
        ctx.check(got_f == want_f, "flip_ctrlpts2d_file", "flip_ctrlpts2d_file wrote %r for the net %r" % (got_f, grid))


# ------------------------------------------------------------------------------------------------ weighted grid
def _enum_grid(tier):
    cases = []
    for nu in range(1, 7):
        for nv in range(1, 7):
            for mode in ("scalar", "vector", "default", "vector-after-read", "bumps-after-read", "regenerate-default", "regenerate-vector", "vector-spread", "scalar-after-read"):
                cases.append({"nu": nu, "nv": nv, "mode": mode, "sx": 2.0 + nu, "sy": 3.0 + nv})
    return cases


def check_grid(case, ctx):
    nu, nv, mode = case["nu"], case["nv"], case["mode"]
    g = CPGen.GridWeighted(case["sx"], case["sy"])
    if mode.startswith("regenerate"):
        # the same generator object was used for another grid (other divisions, own weights, grid read) before
        g.generate(nu + 1, nv + 2)
        g.weight = [0.75 + 0.5 * ((3 * i) % 5) for i in range((nu + 2) * (nv + 3))]
        _ = g.grid
        ctx.nt(True, "generator-object-reused")
    g.generate(nu, nv)
    base = [[list(pt) for pt in row] for row in g._grid_points] if False else None
    plain = CPGen.Grid(case["sx"], case["sy"])
    plain.generate(nu, nv)
    pts = plain.grid
    count = (nu + 1) * (nv + 1)
    if mode == "bumps-after-read":
        if nu < 2 or nv < 2:
            ctx.label("grid-too-small-for-a-bump")
            return
        w = [0.5 + 0.25 * ((3 * i) % 7) for i in range(count)]
        g.weight = list(w)
        _ = g.grid
        g.bumps(1, bump_height=3.0, base_extent=1)          # edits the z-values of some grid points (position chosen by the library)
        pts = CPGen.Grid.grid.fget(g)                        # the generator's current (unweighted) grid points
        ctx.nt(True, "per-point-weights")
        ctx.check(any(p[2] == 3.0 for row in pts for p in row), "bumps-no-effect", "bumps() did not raise any grid point")
    ctx.nt(nu != nv, "non-square")
    ctx.nt(mode.startswith("vector"), "per-point-weights")
    if mode == "scalar-after-read":
        # one weight for all points, assigned after the weighted grid (with other weights) was looked at
        g.weight = [0.5 + 0.25 * ((5 * i) % 13) for i in range(count)]
        _ = g.grid
        g.weight = 1.5
        w = [1.5] * count
    elif mode == "scalar":
        g.weight = 2.5
        w = [2.5] * count
    elif mode == "vector":
        w = [0.5 + 0.25 * ((7 * i) % 11) for i in range(count)]
        g.weight = list(w)
    elif mode == "vector-spread":
        # weights of widely differing magnitude (every third one times 2^-30): each point still gets its own weight
        w = [(0.5 + 0.25 * ((7 * i) % 11)) * (2.0 ** -30 if i % 3 == 0 else 1.0) for i in range(count)]
        g.weight = list(w)
    elif mode == "vector-after-read":
        _ = g.grid
        w = [0.5 + 0.25 * ((5 * i) % 13) for i in range(count)]
        g.weight = list(w)
    elif mode == "regenerate-vector":
        w = [0.5 + 0.25 * ((7 * i) % 11) for i in range(count)]
        g.weight = list(w)
    elif mode in ("default", "regenerate-default"):
        w = [1.0] * count
    got = g.grid
    ctx.check(len(got) == nu + 1 and all(len(r) == nv + 1 for r in got), "grid-shape", "weighted grid has shape %r" % [len(r) for r in got])
    for i in range(nu + 1):
        for j in range(nv + 1):
            wi = w[i * (nv + 1) + j]
            want = [c * wi for c in pts[i][j]] + [wi]
            ctx.check(_pts_equal([got[i][j]], [want]), "grid-point-weight" if mode not in ("vector-after-read", "bumps-after-read") else "grid-stale-after-" + ("weight-change" if mode == "vector-after-read" else "bumps"),
                      "grid[%d][%d] = %r, expected point %r times its own weight %r (mode %s, %dx%d)" % (i, j, got[i][j], pts[i][j], wi, mode, nu + 1, nv + 1))
    ctx.check(list(g.weight) == [float(x) for x in w], "grid-weights-vector", "weight vector is %r" % (g.weight,))


# ------------------------------------------------------------------------------------------------ conversions and weight scaling
@st.composite
def _convert_cases(draw, tier):
    d = draw(gen.spline(max_p=3, max_extra=3, vol_max_p=2, vol_max_extra=1, unclamped="maybe"))
    if draw(st.integers(0, 5)) == 0:
        # a shape in 4-space (the spatial dimension is whatever the control points have)
        d["P"] = [q + [q[0] * 0.5 - q[1]] * (4 - len(q)) for q in d["P"]]
        d["dim"] = 4
    return {"defn": d, "scale": draw(st.sampled_from([0.25, 0.5, 2.0, 3.0, 8.0, 2.0 ** -40, 2.0 ** 30, 2.0 ** -20])), "unit": draw(st.booleans())}


def check_convert(case, ctx):
    d = dict(case["defn"])
    if d["rational"] and case["unit"]:
        d["W"] = [1.0] * len(d["P"])
    obj = build.make(d)
    R = build.exact_from(d, obj)
    lat = shape.obj_lattice(obj)
    ctx.label("kind:" + d["kind"])
    ctx.label("4-D", d["dim"] == 4)
    # one more spatial coordinate for every control point (operations.add_dimension): the weights stay with their points and the
    # weighted points are the new points times their weights
    off = [0.0, 2.5, -1.25][len(d["P"]) % 3]
    src = build.make(d)
    src_before = build.snapshot(src)
    up = operations.add_dimension(src, offset=off)
    P_up = [list(q) + [off] for q in d["P"]]
    ctx.check(_pts_equal(up.ctrlpts, P_up), "add-dimension-points", "add_dimension(offset=%r): control points %r..., expected %r..." % (off, [list(q) for q in up.ctrlpts][:2], P_up[:2]))
    if d["rational"]:
        ctx.check(all(_close(x, y) for x, y in zip(up.weights, d["W"])) and len(up.weights) == len(d["W"]), "add-dimension-weights", "add_dimension changed the weights")
        ctx.check(_pts_equal(up.ctrlptsw, build.homogeneous(P_up, d["W"])), "add-dimension-weighted", "add_dimension(offset=%r): the weighted points are not the new points times their weights: %r..." % (off, [list(q) for q in up.ctrlptsw][:2]))
    ctx.check(build.snapshot(src) == src_before, "add-dimension-modified-input", "add_dimension without inplace changed its input")
    if not d["rational"]:
        ctx.nt(True, "bspline->nurbs->bspline")
        n = convert.bspline_to_nurbs(obj)
        ctx.check(bool(n.rational), "to-nurbs-not-rational", "bspline_to_nurbs returned a non-rational object")
        ctx.check(all(w == 1.0 for w in n.weights) and len(n.weights) == len(d["P"]), "to-nurbs-weights", "weights after conversion: %r" % (n.weights,))
        ctx.check(_pts_equal(n.ctrlpts, d["P"]), "to-nurbs-points", "control points changed by bspline_to_nurbs")
        shape.same_shape(ctx, R, n, lat, "to-nurbs-evaluates-differently", "bspline_to_nurbs")
        b = convert.nurbs_to_bspline(n)
        ctx.check(not b.rational, "round-trip-rational", "nurbs_to_bspline(bspline_to_nurbs(x)) is rational")
        ctx.check(build.snapshot(b)["pts"] == build.snapshot(obj)["pts"] and build.kvs_of(b) == build.kvs_of(obj) and build.degrees_of(b) == build.degrees_of(obj),
                  "round-trip-differs", "conversion round trip changed the definition")
        shape.same_shape(ctx, R, b, lat, "round-trip-evaluates-differently", "nurbs_to_bspline(bspline_to_nurbs(x))")
        # the converted shape is a shape of its own: editing it (points, then a knot vector) leaves the source as it was, and
        # the source goes on working (its next edit re-samples it correctly)
        src = build.snapshot(obj)
        n.ctrlpts = [[c * 2.0 + 1.0 for c in q] for q in d["P"]]
        sfx = [""] if d["kind"] == "curve" else ["_u", "_v", "_w"][:len(d["degree"])]
        k_ = len(d["P"]) % len(sfx)
        kvn = list(build.kvs_of(n)[k_])
        p_, n_ = d["degree"][k_], d["size"][k_]
        if n_ > p_ + 1:
            kvn[p_ + 1] = (kvn[p_] + kvn[p_ + 1]) / 2.0          # move the first interior knot of the converted shape
            setattr(n, "knotvector" + sfx[k_], kvn)
        ctx.check(build.snapshot(obj) == src and build.sizes_of(obj) == d["size"], "conversion-result-not-independent",
                  "editing the result of bspline_to_nurbs changed the source: sizes %r, definition equal %r" % (build.sizes_of(obj), build.snapshot(obj) == src))
        shape.same_shape(ctx, R, obj, lat, "conversion-result-not-independent", "source after its converted twin was edited")
        d2 = dict(d)
        d2["P"] = [[c - 3.0 for c in q] for q in d["P"]]
        obj.ctrlpts = [list(q) for q in d2["P"]]
        ctx.check(build.sizes_of(obj) == d["size"], "conversion-damaged-source", "after a conversion and one edit the source reports sizes %r" % build.sizes_of(obj))
        shape.same_shape(ctx, build.exact_from(d2, obj), obj, lat, "conversion-damaged-source", "source edited after it was converted")
        return
    ctx.nt(build.varied_weights(d), "varied-weights")
    ctx.nt(not build.varied_weights(d), "convertible-unit-or-constant")
    b = convert.nurbs_to_bspline(obj)
    # either a non-rational twin (unit weights) or the input itself: in both cases it evaluates identically
    shape.same_shape(ctx, R, b, lat, "to-bspline-evaluates-differently", "nurbs_to_bspline (weights %r...)" % (d["W"][:4],))
    if all(w == 1.0 for w in d["W"]):
        ctx.check(not b.rational, "unit-weights-not-converted", "nurbs_to_bspline kept a unit-weight shape rational")
    # multiplying all weights by one positive constant moves no point
    c = case["scale"]
    o2 = build.make(d)
    o2.weights = [w * c for w in d["W"]]
    ctx.check(_pts_equal(o2.ctrlpts, d["P"]), "scaled-weights-moved-ctrlpts", "scaling the weights changed the unweighted control points")
    shape.same_shape(ctx, R, o2, lat, "uniform-weight-scaling-moves-points", "all weights multiplied by %r" % c)


# ------------------------------------------------------------------------------------------------ a converted twin and its source
@st.composite
def _twin_cases(draw, tier):
    d = draw(gen.spline(max_p=3, max_extra=3, vol_max_p=2, vol_max_extra=1, unclamped="maybe", affine_range="maybe", normalize="maybe"))
    return {"defn": d, "pre": draw(st.sampled_from(["none", "sampled", "partial", "sampled"])), "alt": draw(st.booleans()),
            "first": draw(st.sampled_from(["twin", "source"]))}


def check_twin(case, ctx):
    """convert.bspline_to_nurbs / nurbs_to_bspline of a shape that has a history (evaluated with its own sample size or on a part of its
    domain, alternative evaluator selected, kept in its own parameter range): the result evaluates identically (parameters mapped
    affinely when the result is normalised), samples itself with its own settings, and the two are independent under knot insertion."""
    d = dict(case["defn"])
    if d["rational"]:
        d["W"] = [1.0] * len(d["P"])
    src = build.make(d)
    R = build.exact_from(d, src)
    lat = shape.obj_lattice(src, limit=40)
    kvs0 = [list(k) for k in build.kvs_of(src)]
    pdim = len(d["degree"])
    ctx.label("kind:" + d["kind"])
    ctx.nt(not d.get("normalize", True), "source-in-own-range")
    ctx.nt(case["pre"] != "none", "source-evaluated-before")
    if case["alt"] and not d["rational"] and d["kind"] in ("curve", "surface"):
        from geomdl import evaluators as _ev
        src.evaluator = _ev.CurveEvaluator2() if d["kind"] == "curve" else _ev.SurfaceEvaluator2()
        ctx.label("alternative-evaluator-on-source")
    if case["pre"] == "sampled":
        src.sample_size = 7 if d["kind"] == "curve" else (4 if d["kind"] == "surface" else 3)
        _ = src.evalpts
    elif case["pre"] == "partial" and d["kind"] == "curve":
        a, b = kvs0[0][d["degree"][0]], kvs0[0][d["size"][0]]
        src.sample_size = 5
        src.evaluate(start=a + (b - a) * 0.25, stop=a + (b - a) * 0.75)
    twin = convert.nurbs_to_bspline(src) if d["rational"] else convert.bspline_to_nurbs(src)
    ctx.check(twin is not src and bool(twin.rational) != bool(d["rational"]), "twin-kind", "conversion returned %r for a %s source" % (type(twin).__name__, type(src).__name__))
    kvt = [list(k) for k in build.kvs_of(twin)]

    def pmap(us, kvs=kvs0, kvt=kvt):
        # the result may be normalised: its parameter is the source's, mapped affinely from [first knot, last knot] to the result's
        return [kt[0] + (float(u) - ks[0]) * (kt[-1] - kt[0]) / (ks[-1] - ks[0]) for u, ks, kt in zip(us, kvs, kvt)]
    shape.same_shape(ctx, R, twin, lat, "twin-evaluates-differently", "result of the conversion", pmap=pmap)
    if d["kind"] == "curve":
        ep = twin.evalpts
        ctx.check(len(ep) == twin.sample_size, "twin-sampling-not-its-own", "the converted curve reports sample_size %r and returns %d evaluated points" % (twin.sample_size, len(ep)))
        for idx, u in ((0, kvs0[0][d["degree"][0]]), (-1, kvs0[0][d["size"][0]])):
            r, scale = R.point([u])
            ctx.check(ref.vec_close(ep[idx], r, scale, 1e-9), "twin-sampling-not-its-own", "evalpts[%d] of the converted curve is %r, the end of the curve is %r" % (idx, ep[idx], ref.fl(r)))
    # a knot inserted into one of the two (middle of the widest span in the first direction) leaves the other as it was
    p0, n0 = d["degree"][0], d["size"][0]
    dom = sorted(set(k for k in kvs0[0] if kvs0[0][p0] <= k <= kvs0[0][n0]))
    w_, lo = max((dom[i + 1] - dom[i], dom[i]) for i in range(len(dom) - 1))
    u_src = lo + w_ / 2.0
    u_twin = pmap([u_src] + [kvs0[i][0] for i in range(1, pdim)])[0]
    order = [(twin, u_twin, "result"), (src, u_src, "source")]
    if case["first"] == "source":
        order.reverse()
    for (obj, u, name), (other, _, oname) in zip(order, order[::-1]):
        before = build.snapshot(other)
        operations.insert_knot(obj, [u] + [None] * (pdim - 1), [1] + [0] * (pdim - 1))
        ctx.check(build.sizes_of(obj)[0] in (n0 + 1, n0 + 2), "twin-insert-size", "insert_knot on the %s: size %r" % (name, build.sizes_of(obj)))
        ctx.check(build.snapshot(other) == before, "conversion-result-not-independent", "inserting a knot into the %s changed the definition of the %s" % (name, oname))
        shape.same_shape(ctx, R, src, lat, "conversion-result-not-independent", "source after a knot was inserted into the %s" % name)
        shape.same_shape(ctx, R, twin, lat, "conversion-result-not-independent", "result after a knot was inserted into the %s" % name, pmap=pmap)


SUBCHECKS = [
    SubCheck("views", _views_cases, check_views, quick=500, thorough=2500, shards_quick=2,
             rule="non-trivial = varied weights, or >= 3 setter calls of >= 2 kinds, or a read between two writes"),
    SubCheck("helpers", _helper_cases, check_helpers, quick=400, thorough=2000,
             rule="non-trivial = varied weights or a non-square 2-D net"),
    SubCheck("grid", None, check_grid, enumerate_cases=_enum_grid,
             rule="exhaustive: grid sizes 1..6 x 1..6 x {default, scalar, per-point, per-point after a read}; non-trivial = non-square or per-point weights"),
    SubCheck("convert", _convert_cases, check_convert, quick=300, thorough=1500,
             rule="non-trivial = BSpline->NURBS->BSpline round trip, or rational (varied or convertible) shape"),
    SubCheck("twin", _twin_cases, check_twin, quick=300, thorough=1500,
             rule="non-trivial = source kept in its own parameter range, or evaluated (fully or partly) before the conversion"),
]
