"""C20 - planar predicates and spatial queries agree with exact arithmetic (DESIGN.md section 5, C20)."""
import math
from fractions import Fraction as F

from hypothesis import strategies as st

from geomdl import ray, linalg, voxelize, operations

from vp import gen, build, ref
from vp.core import SubCheck, Skip

RULE = ("Cases: 2-D/3-D ray pairs built by construction as crossing (through a chosen dyadic point with dyadic parameters), "
        "coplanar crossing on an integer grid, parallel, coincident, or skew (integer grid, so the line distance is >= 1/800); "
        "simple polygons (star-shaped around a centre, rectilinear staircases) and point sets on an integer grid |c| <= 8; "
        "voxel grids 2..8 per axis on surfaces and volumes; control-point lookup on curves and surfaces. "
        "Oracle = exact rational orientation / winding number / monotone-chain hull / basis functions.")
ASSUMPTIONS = ["query points on the polygon boundary are not asserted", "voxels whose in/out status depends on a margin < 1e-6 are not asserted"]


# ------------------------------------------------------------------------------------------------ rays
@st.composite
def _vec(draw, dim, lim=16, den=8.0, nonzero=True):
    v = [draw(st.integers(-lim, lim)) / den for _ in range(dim)]
    if nonzero and not any(v):
        v[draw(st.integers(0, dim - 1))] = draw(st.sampled_from([-1.0, 1.0, 0.5]))
    return v


@st.composite
def _ray_cases(draw, tier):
    dim = draw(st.sampled_from([2, 3]))
    kind = draw(st.sampled_from(["cross", "cross", "grid", "parallel", "coincident", "skew", "nearmiss"]))
    c = {"dim": dim, "kind": kind}
    if kind == "nearmiss":
        c["dim"] = dim = 3
        c["gap"] = draw(st.sampled_from([2.0 ** -30, 2.0 ** -24, 2.0 ** -20]))
    if kind in ("cross", "nearmiss"):
        c["X"] = draw(_vec(dim, 64, 8.0, nonzero=False))
        c["d1"] = draw(_vec(dim))
        c["d2"] = draw(_vec(dim))
        c["t1"] = draw(st.integers(-16, 16)) / 4.0
        c["t2"] = draw(st.integers(-16, 16)) / 4.0
    else:
        c["p1"] = [float(x) for x in draw(st.lists(st.integers(-8, 8), min_size=dim, max_size=dim))]
        c["p2"] = [float(x) for x in draw(st.lists(st.integers(-8, 8), min_size=dim, max_size=dim))]
        c["d1"] = [float(x) for x in draw(st.lists(st.integers(-8, 8), min_size=dim, max_size=dim))]
        c["d2"] = [float(x) for x in draw(st.lists(st.integers(-8, 8), min_size=dim, max_size=dim))]
        c["c"] = draw(st.sampled_from([-3.0, -2.0, -1.0, -0.5, 0.5, 1.0, 2.0, 3.0]))
        c["s"] = draw(st.integers(-4, 4)) / 2.0
    # each ray may be given by two points that lie close together (the crossing is then many segment lengths away)
    c["short"] = draw(st.sampled_from([0, 0, 0, 8, 12]))
    # the crossing point may lie a few hundred units from the origin, in any quadrant / octant
    c["xfar"] = draw(st.sampled_from([1, 1, 1, 64, -64]))
    return c


def _cross3(a, b):
    a = list(a) + [F(0)] * (3 - len(a))
    b = list(b) + [F(0)] * (3 - len(b))
    return [a[1] * b[2] - a[2] * b[1], a[2] * b[0] - a[0] * b[2], a[0] * b[1] - a[1] * b[0]]


def check_rays(case, ctx):
    dim, kind = case["dim"], case["kind"]
    d1 = [F(x) for x in case["d1"]]
    d2 = [F(x) for x in case["d2"]]
    if not any(d1):
        d1[0] = F(1)
    if not any(d2):
        d2[-1] = F(1)
    if kind in ("cross", "nearmiss"):
        X = [F(x) for x in case["X"]]
        far = case.get("xfar", 1) != 1 and kind == "cross"          # (a near miss is defined relative to coordinates of size <= 8)
        if far:
            X = [abs(x) * case["xfar"] + case["xfar"] for x in X]          # all coordinates of one sign, magnitude 64 .. 600
            ctx.label("crossing-far-from-origin")
        tf = 256 if far else 1          # ... and then the rays start some hundred units away from it
        p1 = [x - F(case["t1"]) * tf * d for x, d in zip(X, d1)]
        p2 = [x - F(case["t2"]) * tf * d for x, d in zip(X, d2)]
        if kind == "nearmiss":
            # two lines that would cross, pulled apart by a gap far above the documented tolerance (256 eps) but tiny
            nrm = _cross3(d1, d2)
            if any(nrm):
                p2 = [a + F(case["gap"]) * b for a, b in zip(p2, nrm)]
            ctx.label("near-miss")
    else:
        p1 = [F(x) for x in case["p1"]]
        p2 = [F(x) for x in case["p2"]]
        if kind == "parallel":
            d2 = [F(case["c"]) * x for x in d1]
        elif kind == "coincident":
            d2 = [F(case["c"]) * x for x in d1]
            p2 = [a + F(case["s"]) * x for a, x in zip(p1, d1)]
    if case.get("short") and kind in ("cross", "grid", "skew"):
        d1 = [x / 2 ** case["short"] for x in d1]
        d2 = [x / 2 ** case["short"] for x in d2]
        ctx.label("rays-given-by-two-nearby-points")
    cr = _cross3(d1, d2)
    diff = [b - a for a, b in zip(p1, p2)] + [F(0)] * (3 - dim)
    triple = sum(x * y for x, y in zip(diff, cr))
    if not any(cr):
        expect = ray.RayIntersection.COLINEAR
    elif triple == 0:
        expect = ray.RayIntersection.INTERSECT
    else:
        expect = ray.RayIntersection.SKEW
    r1 = ray.Ray([float(x) for x in p1], [float(a + b) for a, b in zip(p1, d1)])
    r2 = ray.Ray([float(x) for x in p2], [float(a + b) for a, b in zip(p2, d2)])
    t1, t2, status = ray.intersect(r1, r2)
    axis_aligned = sum(1 for x in d1 if x) == 1 and sum(1 for x in d2 if x) == 1
    ctx.nt(not axis_aligned, "not-axis-aligned")
    ctx.label("dim:%d" % dim)
    ctx.label("expect:%s" % {1: "INTERSECT", 2: "COLINEAR", 3: "SKEW"}[expect])
    ctx.check(status == expect, "ray-status", "intersect status %r, expected %r (p1=%r d1=%r p2=%r d2=%r)" % (
        status, expect, ref.fl(p1), ref.fl(d1), ref.fl(p2), ref.fl(d2)))
    if expect == ray.RayIntersection.INTERSECT:
        # exact parameters: solve p1 + t1 d1 = p2 + t2 d2 via cross products
        n2 = sum(x * x for x in cr)
        e1 = sum(a * b for a, b in zip(_cross3(diff, d2), cr)) / n2
        e2 = sum(a * b for a, b in zip(_cross3(diff, d1), cr)) / n2
        a = r1.eval(t1)
        b = r2.eval(t2)
        Xe = [p + e1 * d for p, d in zip(p1, d1)]
        mag = 1 + max(abs(float(x)) for x in Xe)
        ctx.check(all(abs(x - y) <= 1e-9 * mag for x, y in zip(a, b)), "ray-points-differ", "ray1.eval(%r) = %r but ray2.eval(%r) = %r" % (t1, a, t2, b))
        ctx.check(all(abs(x - float(y)) <= 1e-9 * mag for x, y in zip(a, Xe)), "ray-point-wrong", "intersection %r, exact %r" % (a, ref.fl(Xe)))
        ctx.check(abs(t1 - float(e1)) <= 1e-9 * (1 + abs(float(e1))) and abs(t2 - float(e2)) <= 1e-9 * (1 + abs(float(e2))), "ray-parameters",
                  "parameters (%r, %r), exact (%r, %r)" % (t1, t2, float(e1), float(e2)))


# ------------------------------------------------------------------------------------------------ polygons, hull, orientation
@st.composite
def _poly_cases(draw, tier):
    style = draw(st.sampled_from(["star", "star", "staircase"]))
    if style == "star":
        n = draw(st.integers(3, 10))
        # vertices sorted by angle around the origin, one per distinct direction: a simple (star-shaped) polygon
        raw = draw(st.lists(st.tuples(st.integers(-8, 8), st.integers(-8, 8)), min_size=n, max_size=n))
        c = {"style": style, "raw": [list(p) for p in raw]}
    else:
        k = draw(st.integers(1, 4))
        xs = sorted(draw(st.lists(st.integers(-8, 8), min_size=k + 1, max_size=k + 1, unique=True)))
        hs = draw(st.lists(st.integers(1, 8), min_size=k, max_size=k))
        c = {"style": style, "xs": xs, "hs": hs, "base": draw(st.integers(-8, 0))}
    c["cw"] = draw(st.booleans())
    c["queries"] = [[draw(st.integers(-18, 18)) / 2.0, draw(st.integers(-18, 18)) / 2.0] for _ in range(12)]
    c["points"] = [list(p) for p in draw(st.lists(st.tuples(st.integers(-8, 8), st.integers(-8, 8)), min_size=1, max_size=14))]
    # the same integer grid, blown up: coordinates of size 2^27 with offsets of one unit (exact in integers, not in doubles)
    c["big"] = draw(st.integers(0, 3)) == 0
    c["jitter"] = [[draw(st.integers(-1, 1)), draw(st.integers(-1, 1))] for _ in range(14)]
    return c


def _make_polygon(c):
    if c["style"] == "star":
        seen = {}
        for x, y in c["raw"]:
            if x == 0 and y == 0:
                continue
            g = math.gcd(abs(x), abs(y))
            key = (x // g, y // g)
            # keep the farthest point of each direction
            if key not in seen or abs(x) + abs(y) > abs(seen[key][0]) + abs(seen[key][1]):
                seen[key] = (x, y)
        pts = sorted(seen.values(), key=lambda p: math.atan2(p[1], p[0]))
        if len(pts) < 3:
            return None
        # star-shaped around the origin only if consecutive directions turn by less than 180 degrees
        for a, b in zip(pts, pts[1:] + pts[:1]):
            if a[0] * b[1] - a[1] * b[0] <= 0:
                return None
        poly = [list(map(float, p)) for p in pts]
    else:
        xs, hs, base = c["xs"], c["hs"], c["base"]
        poly = [[float(xs[0]), float(base)]]
        for i, h in enumerate(hs):
            poly.append([float(xs[i]), float(base + h)])
            poly.append([float(xs[i + 1]), float(base + h)])
        poly.append([float(xs[-1]), float(base)])
        # remove consecutive duplicates / collinear duplicates are fine for winding numbers
        out = []
        for p in poly:
            if not out or out[-1] != p:
                out.append(p)
        poly = out[::-1]      # counter-clockwise
    if c["cw"]:
        poly = poly[::-1]
    return poly + [poly[0]]


def check_planar(case, ctx):
    poly = _make_polygon(case)
    # orientation test on point triples
    pts = case["points"]
    for i in range(len(pts) - 2):
        a, b, c = pts[i], pts[i + 1], pts[i + 2]
        v = linalg.is_left(a, b, c)
        e = ref.orient(a, b, c)
        ctx.check((v > 0) == (e > 0) and (v < 0) == (e < 0), "is_left", "is_left(%r, %r, %r) = %r, exact orientation %r" % (a, b, c, v, float(e)))
    if case.get("big"):
        K = 2 ** 27 + 3
        bp = [[p[0] * K + j[0], p[1] * K + j[1]] for p, j in zip(pts, case["jitter"])]
        ctx.label("integer-coordinates-of-size-2^27")
        for i in range(len(bp) - 2):
            a, b, c = bp[i], bp[i + 1], bp[i + 2]
            v = linalg.is_left(a, b, c)
            e = (b[0] - a[0]) * (c[1] - a[1]) - (c[0] - a[0]) * (b[1] - a[1])
            ctx.check((v > 0) == (e > 0) and (v < 0) == (e < 0), "is_left", "is_left(%r, %r, %r) = %r, exact integer orientation %r" % (a, b, c, v, e))
        # nearly collinear triples of large integer points: (m, m+1) and (m+1, m+2) span a parallelogram of area exactly 1
        for (ox, oy), (jx, jy) in zip(pts[:4], case["jitter"]):
            m_ = K + 5 * jx + jy
            a, b, c = [ox, oy], [ox + m_, oy + m_ + 1], [ox + m_ + 1, oy + m_ + 2]
            for t_ in ((a, b, c), (a, c, b)):
                v = linalg.is_left(*t_)
                e = (t_[1][0] - t_[0][0]) * (t_[2][1] - t_[0][1]) - (t_[2][0] - t_[0][0]) * (t_[1][1] - t_[0][1])
                ctx.check((v > 0) == (e > 0) and (v < 0) == (e < 0), "is_left", "is_left(%r, %r, %r) = %r, exact integer orientation %r" % (t_[0], t_[1], t_[2], v, e))
    # convex hull
    hull = linalg.convex_hull([list(p) for p in pts])
    exact = ref.convex_hull_ccw(pts)
    got = [(F(p[0]), F(p[1])) for p in hull]
    collinear = any(ref.orient(pts[i], pts[j], pts[k]) == 0 for i in range(len(pts)) for j in range(i + 1, len(pts)) for k in range(j + 1, len(pts))
                    if pts[i] != pts[j] and pts[j] != pts[k] and pts[i] != pts[k]) if len(pts) <= 10 else True
    ctx.nt(collinear and len(set(map(tuple, pts))) >= 3, "hull-with-collinear-triples")
    if len(exact) >= 3:
        ok = len(got) == len(exact) and set(got) == set(exact)
        if ok:
            k = got.index(exact[0])
            ok = got[k:] + got[:k] == exact
        ctx.check(ok, "convex_hull", "convex_hull(%r) = %r, exact counter-clockwise hull %r" % (pts, hull, [[float(x), float(y)] for x, y in exact]))
    else:
        ctx.check(set(got) == set(exact), "convex_hull", "convex_hull of a degenerate set %r = %r, expected %r" % (pts, hull, [[float(x), float(y)] for x, y in exact]))
    if poly is None:
        ctx.label("polygon-not-simple-skipped")
        return
    nvert = len(poly) - 1
    xs = [p[0] for p in poly]
    ys = [p[1] for p in poly]
    inside_box = 0
    for q in case["queries"]:
        if ref.on_boundary(q, poly):
            ctx.label("query-on-boundary")
            continue
        want = ref.winding_number(q, poly) != 0
        got_in = linalg.wn_poly(q, poly)
        if min(xs) <= q[0] <= max(xs) and min(ys) <= q[1] <= max(ys):
            inside_box += 1
        ctx.check(bool(got_in) == want, "wn_poly", "wn_poly(%r, %r) = %r, exact winding number test %r" % (q, poly, got_in, want))
    ctx.nt(nvert >= 5 and inside_box >= 1, "polygon>=5-vertices-query-in-bbox")
    ctx.label("style:" + case["style"])
    ctx.label("clockwise", case["cw"])
    ctx.label("query-level-with-vertex", any(q[1] in ys for q in case["queries"]))


# ------------------------------------------------------------------------------------------------ voxels
@st.composite
def _voxel_cases(draw, tier):
    d = draw(gen.spline(kinds=("surface", "volume"), max_p=2, max_extra=2, vol_max_p=2, vol_max_extra=1, distinct=True))
    flat = draw(st.sampled_from([None, None, None, 0, 1, 2]))
    if flat is not None and d["kind"] == "surface":
        # a planar, axis-aligned surface: all control points share one coordinate (zero extent of the bounding box there)
        c0 = d["P"][0][flat] if draw(st.booleans()) else 0.0          # ... half of the time the coordinate plane itself
        d["P"] = [[c0 if i == flat else c for i, c in enumerate(q)] for q in d["P"]]
        d["flat_axis"] = flat
    if draw(st.integers(0, 4)) == 0:
        # a model placed far from the origin (map coordinates): the same shape, the same grid relative to it
        off = [2.0 ** 19, 2.0 ** 22, 0.0]
        d["P"] = [[c + o for c, o in zip(q, off)] for q in d["P"]]
        d["far_from_origin"] = True
    if not d.get("far_from_origin") and draw(st.integers(0, 5)) == 0:
        d["tiny_exp"] = -26          # the same model in units of 2^-26 (a part of a few hundred nanometres, given in metres)
    return {"defn": d, "grid": [draw(st.integers(2, 8 if tier == "thorough" else 5)) for _ in range(3)], "cubes": draw(st.booleans()),
            "n": draw(st.integers(2, 5)), "procs": draw(st.sampled_from([1, 1, 1, 2, 3])), "pair": draw(st.integers(0, 3)) == 0}


def check_voxels(case, ctx):
    d = case["defn"]
    if d.get("tiny_exp"):
        # a very small model: the request is answered (in finite time), the grid covers the box, every sampled point lies in a voxel
        S = 2.0 ** d["tiny_exp"]
        ctx.label("model-in-very-small-units")
        ctx.nt(True, "some-voxel-decided")
        small = build.make(dict(d, P=[[c * S for c in q] for q in d["P"]]))
        small.delta = 1.0 / case["n"]
        sbb = small.bbox
        if len([i for i in range(3) if sbb[1][i] == sbb[0][i]]) > 1:
            raise Skip("a line")
        g, f = voxelize.voxelize(small, grid_size=tuple(case["grid"]), use_cubes=case["cubes"])
        ctx.check(len(g) == len(f) and len(g) > 0, "voxel-counts", "%d voxels but %d fill flags" % (len(g), len(f)))
        for i in range(3):
            ctx.check(len(g) > 0 and min(v[0][i] for v in g) <= sbb[0][i] + 1e-9 * S and max(v[1][i] for v in g) >= sbb[1][i] - 1e-9 * S, "voxel-grid-does-not-cover-bbox",
                      "tiny model: voxel grid does not span the bounding box [%r, %r] on axis %d" % (sbb[0][i], sbb[1][i], i))
        for p in small.evalpts:
            ctx.check(any(all(v[0][i] - 1e-7 <= p[i] <= v[1][i] + 1e-7 for i in range(3)) for v in g), "sampled-point-outside-grid", "tiny model: sampled point %r lies in no voxel" % (list(p),))
        ctx.check(sum(f) >= 1, "voxel-not-filled", "tiny model: no voxel is marked filled although every sampled point lies in the grid")
        return
    obj = build.make(d)
    obj.delta = 1.0 / case["n"]
    bb = obj.bbox
    flat_axes = [i for i in range(3) if bb[1][i] == bb[0][i]]
    if any(0 < bb[1][i] - bb[0][i] < 0.125 for i in range(3)) or len(flat_axes) > 1:
        raise Skip("bounding box is thin (but not flat) in some direction, or a line")
    ctx.label("planar-axis-aligned-shape", bool(flat_axes))
    ctx.label("far-from-origin", bool(d.get("far_from_origin")))
    pts = [list(p) for p in obj.evalpts]
    kw = {"num_procs": case["procs"]} if case.get("procs", 1) > 1 else {}
    if case["n"] % 3 == 0:
        # a refused request first (a grid needs at least 2 voxels per axis); the valid request after it is answered as usual
        try:
            voxelize.voxelize(obj, grid_size=(case["grid"][0], 1, case["grid"][2]))
        except Exception:
            ctx.label("after-a-rejected-request")
    ctx.label("num_procs>1", bool(kw))
    grid, filled = voxelize.voxelize(obj, grid_size=tuple(case["grid"]), use_cubes=case["cubes"], **kw)
    ctx.check(len(grid) == len(filled) and len(grid) > 0, "voxel-counts", "%d voxels but %d fill flags" % (len(grid), len(filled)))
    ctx.label("cubes", case["cubes"])
    ctx.label("kind:" + d["kind"])
    amb = 0
    for vx, f in zip(grid, filled):
        lo, hi = vx
        ax = [i for i in range(3) if i not in flat_axes]          # on a flat axis every sampled point lies on the voxel layer
        inside = any(all(lo[i] + 1e-6 < p[i] < hi[i] - 1e-6 for i in ax) and all(lo[i] - 1e-9 <= p[i] <= hi[i] + 1e-9 for i in flat_axes) for p in pts)
        outside = all(any(p[i] < lo[i] - 1e-6 or p[i] > hi[i] + 1e-6 for i in range(3)) for p in pts)
        if inside:
            ctx.check(f == 1, "voxel-not-filled", "voxel %r contains a sampled point but is marked empty" % (vx,))
        elif outside:
            ctx.check(f == 0, "voxel-wrongly-filled", "voxel %r contains no sampled point but is marked filled" % (vx,))
        else:
            amb += 1
    ctx.nt(amb < len(grid), "some-voxel-decided")
    ctx.label("ambiguous-voxels", amb > 0)
    # the grid covers the bounding box (hence every sampled point)
    for i in range(3):
        ctx.check(min(v[0][i] for v in grid) <= bb[0][i] + 1e-9 * (1 + abs(bb[0][i])) and max(v[1][i] for v in grid) >= bb[1][i] - 1e-9 * (1 + abs(bb[1][i])), "voxel-grid-does-not-cover-bbox",
                  "voxel grid spans [%r, %r] on axis %d, bounding box [%r, %r]" % (min(v[0][i] for v in grid), max(v[1][i] for v in grid), i, bb[0][i], bb[1][i]))
    for p in pts:
        ctx.check(any(all(v[0][i] - 1e-7 <= p[i] <= v[1][i] + 1e-7 for i in range(3)) for v in grid), "sampled-point-outside-grid", "sampled point %r lies in no voxel" % (p,))
    if case.get("pair") and not flat_axes:
        # a container of the shape and an overlapping, shifted copy: every member gets its own grid, filled from its own points
        from geomdl import multi, operations
        shift = [(bb[1][i] - bb[0][i]) * 0.25 for i in range(3)]
        obj2 = operations.translate(obj, shift)
        obj2.delta = 1.0 / case["n"]
        cont = build.container(multi.SurfaceContainer if obj.pdimension == 2 else multi.VolumeContainer, [obj, obj2], case["n"] // 3)
        cgrid, cfilled = voxelize.voxelize(cont, grid_size=tuple(case["grid"]), use_cubes=case["cubes"], **kw)
        ctx.label("container-of-two")
        g2, f2 = voxelize.voxelize(obj2, grid_size=tuple(case["grid"]), use_cubes=case["cubes"], **kw)
        # (the number of voxels a member gets is the library's business - far from the origin a grid line more or less can
        # come out of the accumulated steps; the container must report exactly what each member gets on its own)
        ctx.check(len(cgrid) == len(cfilled) and len(cgrid) == len(grid) + len(g2), "voxel-counts", "container of two: %d voxels, %d flags; the members alone have %d and %d voxels" % (len(cgrid), len(cfilled), len(grid), len(g2)))
        half = len(grid)
        ctx.check([list(map(list, v)) for v in cgrid[:half]] == [list(map(list, v)) for v in grid] and list(cfilled[:half]) == list(filled), "container-member-voxels",
                  "the first member's part of the container result differs from voxelising that member alone (%d vs %d filled)" % (sum(cfilled[:half]), sum(filled)))
        ctx.check([list(map(list, v)) for v in cgrid[half:]] == [list(map(list, v)) for v in g2] and list(cfilled[half:]) == list(f2), "container-member-voxels",
                  "the second member's part of the container result differs from voxelising that member alone (%d vs %d filled)" % (sum(cfilled[half:]), sum(f2)))
    if case["n"] % 3 == 1:
        # a shape that was never sampled: its box is looked at, its control points are replaced, then it is voxelised
        o3 = build.make(d)
        o3.delta = 1.0 / case["n"]
        _ = o3.bbox
        o3.ctrlpts = [[c * 0.5 - 2.0 for c in q] for q in d["P"]]
        bb3 = [[min(q[i] * 0.5 - 2.0 for q in d["P"]) for i in range(3)], [max(q[i] * 0.5 - 2.0 for q in d["P"]) for i in range(3)]]
        g3, f3 = voxelize.voxelize(o3, grid_size=tuple(case["grid"]), use_cubes=case["cubes"])
        ctx.label("unsampled-shape-with-new-control-points")
        for i in range(3):
            ctx.check(len(g3) > 0 and min(v[0][i] for v in g3) <= bb3[0][i] + 1e-9 and max(v[1][i] for v in g3) >= bb3[1][i] - 1e-9, "voxel-grid-does-not-cover-bbox",
                      "after new control points on a never-sampled shape the voxel grid spans [%r, %r] on axis %d, the control net [%r, %r]" % (
                          min(v[0][i] for v in g3) if g3 else None, max(v[1][i] for v in g3) if g3 else None, i, bb3[0][i], bb3[1][i]))
    if case["n"] % 2 == 0:
        # the same object voxelised again after its control points moved: the grid follows the new bounding box
        obj.ctrlpts = [[c * 1.5 + 3.0 for c in q] for q in d["P"]]
        bb2 = obj.bbox
        pts2 = [list(p) for p in obj.evalpts]
        grid2, filled2 = voxelize.voxelize(obj, grid_size=tuple(case["grid"]), use_cubes=case["cubes"])
        ctx.label("voxelised-twice")
        for i in range(3):
            ctx.check(min(v[0][i] for v in grid2) <= bb2[0][i] + 1e-9 and max(v[1][i] for v in grid2) >= bb2[1][i] - 1e-9, "voxel-grid-does-not-cover-bbox",
                      "after moving the control points the voxel grid spans [%r, %r] on axis %d, the bounding box is [%r, %r]" % (
                          min(v[0][i] for v in grid2), max(v[1][i] for v in grid2), i, bb2[0][i], bb2[1][i]))
        for p in pts2:
            ctx.check(any(all(v[0][i] - 1e-7 <= p[i] <= v[1][i] + 1e-7 for i in range(3)) for v in grid2), "sampled-point-outside-grid",
                      "after moving the control points, sampled point %r lies in no voxel" % (p,))


# ------------------------------------------------------------------------------------------------ control point lookup
@st.composite
def _lookup_cases(draw, tier):
    d = draw(gen.spline(ranges=("far",), kinds=("curve", "surface"), max_p=4, max_extra=4, different=True, distinct=True, unclamped="maybe",
                        affine_range="maybe", normalize="maybe"))
    return {"defn": d, "params": draw(st.lists(gen.params(len(d["degree"])), min_size=1, max_size=4)), "binsearch": draw(st.integers(0, 3)) == 0}


def check_lookup(case, ctx):
    d = case["defn"]
    obj = build.make(d)
    if len(d["P"]) % 2:
        # a moved copy of the shape exists (and was looked at) next to it; the lookup still answers for the shape itself
        mv_ = operations.translate(obj, [4.0, -2.0, 1.0][:d["dim"]])
        _ = [list(q) for q in mv_.ctrlpts]
        ctx.label("moved-copy-next-to-the-shape")
    if d["kind"] == "curve" and len(d["P"]) % 4 == 2:
        # the curve was looked at (views, a first lookup) and then reversed: the lookup answers for the reversed curve
        _ = [list(q) for q in obj.ctrlpts], (list(obj.weights) if d["rational"] else None), operations.find_ctrlpts(obj, obj.domain[0])
        obj.reverse()
        d = dict(d)
        d["P"] = [list(q) for q in d["P"][::-1]]
        if d["rational"]:
            d["W"] = list(d["W"][::-1])
        ctx.label("reversed-after-first-lookup")
    if d["kind"] == "surface" and len(d["P"]) % 3 == 0:
        # the net was handed over in its documented 2-D form (rows of points along v, one row per u index)
        nv_ = d["size"][1]
        flat_ = build.homogeneous(d["P"], d["W"]) if d["rational"] else d["P"]
        obj.ctrlpts2d = [[list(flat_[v_ + nv_ * u_]) for v_ in range(nv_)] for u_ in range(d["size"][0])]
        ctx.label("net-set-through-ctrlpts2d")
    R = build.exact_from(d, obj)
    pdim = len(d["degree"])
    P = d["P"]
    from geomdl import helpers as _h
    kwl = {"find_span_func": _h.find_span_binsearch} if case.get("binsearch") else {}          # documented keyword of the lookup
    ctx.label("binary-span-search", bool(kwl))
    hom = build.homogeneous(P, d["W"]) if d["rational"] else None
    kinds_all = []
    for descs in case["params"]:
        us, kinds = build.resolve_params(obj, descs)
        kinds_all += kinds
        sp = R.spans(us)
        if pdim == 1:
            got = [list(p) for p in operations.find_ctrlpts(obj, us[0], **kwl)]
            want_idx = list(range(sp[0] - d["degree"][0], sp[0] + 1))
            ctx.check(len(got) == len(want_idx), "lookup-count", "find_ctrlpts returned %d points for degree %d" % (len(got), d["degree"][0]))
            rows = [(got, want_idx)]
        else:
            g = operations.find_ctrlpts(obj, us[0], us[1], **kwl)
            nv = d["size"][1]
            ctx.check(len(g) == d["degree"][0] + 1 and all(len(r) == d["degree"][1] + 1 for r in g), "lookup-count", "find_ctrlpts returned shape %r for degrees %r" % ([len(r) for r in g], d["degree"]))
            rows = []
            for a, iu in enumerate(range(sp[0] - d["degree"][0], sp[0] + 1)):
                rows.append(([list(p) for p in g[a]], [iv + nv * iu for iv in range(sp[1] - d["degree"][1], sp[1] + 1)]))
        for got, idxs in rows:
            for gp, i in zip(got, idxs):
                cands = [P[i]] + ([hom[i]] if hom else [])
                ctx.check(any(len(gp) == len(c) and all(abs(x - y) <= 1e-12 * (1 + abs(y)) for x, y in zip(gp, c)) for c in cands), "lookup-wrong-point",
                          "find_ctrlpts at %r returned %r where control point %d = %r is active (spans %r)" % (us, gp, i, P[i], sp))
        # every control point with a non-zero basis value is among the returned ones (exact basis functions)
        act = set(R.active(us))
        ret = set(i for _, idxs in rows for i in idxs)
        ctx.check(act == ret, "lookup-not-active-set", "active control points %r, looked-up window %r" % (sorted(act), sorted(ret)))
    ctx.nt(any(k in ("knot", "start", "end") for k in kinds_all), "on-knot-or-end")
    ctx.nt(pdim == 2, "surface-nu!=nv")
    ctx.label("rational", d["rational"])
    ctx.label("unclamped", d.get("unclamped", False))


SUBCHECKS = [
    SubCheck("rays", _ray_cases, check_rays, quick=2000, thorough=8000,
             rule="non-trivial = ray pair not axis-aligned; expected statuses labelled"),
    SubCheck("planar", _poly_cases, check_planar, quick=1000, thorough=4000,
             rule="non-trivial = polygon with >= 5 vertices and a query inside its bounding box, or a hull input with collinear triples"),
    SubCheck("voxels", _voxel_cases, check_voxels, quick=250, thorough=800,
             rule="non-trivial = at least one voxel whose status is decided by a margin > 1e-6"),
    SubCheck("lookup", _lookup_cases, check_lookup, quick=400, thorough=2000,
             rule="non-trivial = parameter on a knot / domain end, or a surface (sizes differ by construction)"),
]

# coverage-guided tier (thorough only): (sub-check, libFuzzer runs per process, processes)
FUZZ = [("rays", 40000, 2), ("planar", 30000, 2)]
