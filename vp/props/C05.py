"""C05 - knot refinement never changes the shape (DESIGN.md section 5, C05)."""
from fractions import Fraction as F

from hypothesis import strategies as st

from geomdl import operations, helpers

from vp import gen, build, ref, shape
from vp.core import SubCheck

RULE = ("Cases: generated clamped curves/surfaces/volumes, refinement densities 0..3 per direction (0 = not selected), "
        "helper-level explicit knot lists; oracle = exact reference of the original definition on a lattice + exact "
        "expected knot structure (every original interval bisected d times, interior multiplicity == degree).")
ASSUMPTIONS = ["knot values compared to 1e-12 against exact dyadic subdivision of the stored knots"]


@st.composite
def _refine_cases(draw, tier):
    big = tier == "thorough"
    d = draw(gen.spline(wspread=True, ranges=("far", "tiny"), max_p=4 if big else 3, max_extra=4 if big else 3, affine_range="maybe", normalize="maybe",
                        vol_max_p=2, vol_max_extra=2, long=True))
    pdim = len(d["degree"])
    hi = 1 if d.get("long") else (2 if d["kind"] == "volume" else 3)
    dens = [draw(st.integers(0, hi)) for _ in range(pdim)]
    if sum(dens) == 0:
        dens[draw(st.integers(0, pdim - 1))] = draw(st.integers(1, hi))
    if d["kind"] == "volume" and sum(dens) > 3:
        dens = [min(x, 1) for x in dens]
    return {"defn": d, "density": dens, "read": draw(st.booleans()), "binsearch": draw(st.integers(0, 3)) == 0}


def expected_refined(p, kv, dens):
    """Exact expected knot vector after refinement with density dens (Fractions)."""
    U = [F(k) for k in kv]
    bps = sorted(set(U[p:len(U) - p]))
    for _ in range(dens):
        nb = []
        for x, y in zip(bps, bps[1:]):
            nb += [x, x + (y - x) / 2]
        nb.append(bps[-1])
        bps = nb
    return [bps[0]] * (p + 1) + [b for b in bps[1:-1] for _ in range(p)] + [bps[-1]] * (p + 1)


def check_refine(case, ctx):
    d = case["defn"]
    # the shape may have been created with the documented alternative span search (used whenever it is evaluated)
    use_bin = bool(case.get("binsearch")) and not build.tiny_range(d)
    obj = build.make(d, find_span_func=helpers.find_span_binsearch) if use_bin else build.make(d)
    ctx.label("binary-span-search", use_bin)
    if case.get("binsearch") is False and len(d["P"]) % 3 == 0:
        import copy
        obj = copy.deepcopy(obj)          # a deep copy nobody has looked at yet is refined like any other shape
        ctx.label("refining-a-fresh-deep-copy")
    R = build.exact_from(d, obj)
    pdim = len(d["degree"])
    dens = case["density"]
    held = held_copy = None
    if case["read"]:
        obj.delta = 0.25
        held = obj.evalpts          # the caller keeps the sampled points it was given ...
        held_copy = [list(q) for q in held]
        if len(d["P"]) % 2:
            _ = obj.ctrlpts, (obj.weights if obj.rational else None)          # ... and has looked at the net in its split form
    kvs, szs = build.kvs_of(obj), build.sizes_of(obj)
    operations.refine_knotvector(obj, list(dens))
    if held is not None:
        # ... and finds them unchanged after the refinement (the evaluated points do not change, in particular not to nothing)
        ctx.check([list(q) for q in held] == held_copy, "held-evalpts-changed",
                  "the points the caller obtained from evalpts before the refinement changed afterwards: %d points, %d before" % (len(held), len(held_copy)))
    nkvs, nszs = build.kvs_of(obj), build.sizes_of(obj)
    ctx.nt(any(len(set(b - a for a, b in zip(sorted(set(kv)), sorted(set(kv))[1:]))) > 1 for kv in d["kv"]), "non-uniform")
    ctx.nt(build.has_repeated_interior(d), "existing-multiplicity>=2")
    ctx.nt(max(dens) >= 2, "density>=2")
    ctx.nt(pdim >= 2, "surface-or-volume")
    ctx.label("kind:" + d["kind"])
    ctx.label("rational", d["rational"])
    ctx.label("affine", bool(d.get("affine")))
    ctx.label("unselected-direction", 0 in dens)
    for k in range(pdim):
        p = d["degree"][k]
        if dens[k] == 0:
            ctx.check(nkvs[k] == kvs[k] and nszs[k] == szs[k], "unselected-direction-changed",
                      "direction %d was not selected but changed: kv %r -> %r size %d -> %d" % (k, kvs[k], nkvs[k], szs[k], nszs[k]))
            continue
        want = expected_refined(p, kvs[k], dens[k])
        ctx.check(len(nkvs[k]) == len(want), "refined-knot-count",
                  "direction %d density %d: %d knots, expected %d (from %r to %r)" % (k, dens[k], len(nkvs[k]), len(want), kvs[k], nkvs[k]))
        ctx.check(all(abs(F(x) - w) <= F(1, 10 ** 12) * max(1, abs(w)) for x, w in zip(nkvs[k], want)), "refined-knot-structure",
                  "direction %d density %d: knot vector %r, expected %r" % (k, dens[k], nkvs[k], [float(w) for w in want]))
        ctx.check(nszs[k] == len(want) - p - 1, "refined-net-size", "direction %d: size %d, expected %d" % (k, nszs[k], len(want) - p - 1))
    total = 1
    for s_ in nszs:
        total *= s_
    ctx.check(len(build.stored_points(obj)) == total, "net-count", "control net has %d points for sizes %r" % (len(build.stored_points(obj)), nszs))
    shape.views_match(ctx, obj, "net-views", "after refine_knotvector(%r)" % (dens,))
    lat = shape.obj_lattice(obj, limit={1: 11, 2: 6, 3: 4}[pdim])
    shape.same_shape(ctx, R, obj, lat, "shape-changed", "after refine_knotvector(%r)" % (dens,))


# ------------------------------------------------------------------------------------------------ helper level
@st.composite
def _helper_cases(draw, tier):
    d = draw(gen.spline(kinds=("curve",), max_p=5 if tier == "thorough" else 4, max_extra=6, affine_range="maybe",
                        normalize=False))
    mode = draw(st.sampled_from(["default", "list", "list", "add", "list+add"]))
    where = draw(st.sampled_from(["any", "any", "first-span", "last-span"]))
    vals = draw(st.lists(st.integers(0, 256), min_size=2, max_size=5, unique=True))      # 0 / 256 = the ends of the chosen interval
    add = draw(st.lists(st.integers(1, 255), min_size=1, max_size=3, unique=True))
    return {"defn": d, "mode": mode, "where": where, "vals": vals, "add": add, "density": draw(st.integers(1, 2)),
            "rows": draw(st.integers(0, 2)), "onknots": draw(st.lists(st.integers(0, 63), max_size=2)),
            "noise": draw(st.sampled_from([0, 0, 1, -1])), "live": draw(st.booleans())}


def check_helper(case, ctx):
    d = case["defn"]
    p, kv, n = d["degree"][0], list(d["kv"][0]), d["size"][0]
    a, b = kv[p], kv[n]
    spans = [j for j in range(p, n) if kv[j] < kv[j + 1]]
    if case["where"] == "first-span":
        lo, hi = kv[spans[0]], kv[spans[0] + 1]
    elif case["where"] == "last-span":
        lo, hi = kv[spans[-1]], kv[spans[-1] + 1]
    else:
        lo, hi = a, b

    def val(i):
        return lo + (hi - lo) * (i / 256.0)
    pts = build.homogeneous(d["P"], d["W"]) if d["rational"] else [list(q) for q in d["P"]]
    rows = case["rows"]
    cp = [[[c + 0.5 * j for c in pt] for j in range(rows)] for pt in pts] if rows else pts
    live = None
    if case.get("live") and not rows:
        # the helper is handed the control points of a living curve (curve.ctrlpts / .ctrlptsw), as a caller would do
        live = build.make(d)
        cp = live.ctrlptsw if d["rational"] else live.ctrlpts
    kw = {"density": case["density"]}
    mode = case["mode"]
    base = sorted(set(kv[p:len(kv) - p]))
    if mode in ("list", "list+add"):
        import math
        lst = [val(i) for i in case["vals"]]
        inner = sorted(set(k for k in kv[p + 1:n] if a < k < b))
        for sel in case.get("onknots", []):
            if inner:
                k0 = inner[sel % len(inner)]
                if any(abs(x - k0) < 1e-6 for x in lst):
                    continue        # the list already names this knot: naming it twice (with noise) is not a meaningful input
                # an entry that coincides with an existing knot, optionally off by one unit in the last place (float noise)
                nz = case.get("noise", 0)
                lst.append(math.nextafter(k0, math.inf if nz > 0 else -math.inf) if nz else k0)
                ctx.label("list-entry-on-existing-knot")
                ctx.label("list-entry-with-float-noise", bool(nz))
        base = sorted(set(lst))
        kw["knot_list"] = list(base)
    if mode in ("add", "list+add"):
        addl = [val(i) for i in case["add"]]
        if case["add"][0] % 3 == 0:
            addl.append(addl[0])          # the same additional knot named twice ...
        if case["add"][0] % 3 == 1 and base:
            addl.append(base[len(base) // 2])          # ... or one that is in the list already: the result is the same set of knots
        kw["add_knot_list"] = list(addl)
        if mode == "add":
            kw["knot_list"] = list(kv[p:len(kv) - p])
        base = sorted(set(base + addl))
    if len(base) < 2:
        ctx.label("no-op-case")
        return
    # expected inserted knots
    L = [F(x) for x in base]
    for _ in range(case["density"]):
        nb = []
        for x, y in zip(L, L[1:]):
            nb += [x, x + (y - x) / 2]
        nb.append(L[-1])
        L = nb
    U = [F(k) for k in kv]
    X = []
    for v in L:
        m = sum(1 for k in U if abs(k - v) <= F(1, 10 ** 7))
        X += [v] * max(0, p - m)
    if not X:
        ctx.label("nothing-to-insert")
        return
    before = [list(map(list, r)) if rows else list(r) for r in cp]
    ctx.label("knot-vector-as-tuple", bool(d.get("kv_tuple")))
    new_cp, new_kv = helpers.knot_refinement(p, tuple(kv) if d.get("kv_tuple") else list(kv), cp, **kw)
    new_kv = list(new_kv)
    ctx.nt(mode != "default", "explicit-list")
    ctx.nt(case["where"] in ("first-span", "last-span"), "list-inside-one-end-span")
    ctx.nt(build.has_repeated_interior(d), "existing-multiplicity>=2")
    ctx.nt(case["density"] >= 2, "density>=2")
    ctx.nt(rows > 0, "rows")
    # knot_refinement may alias/overwrite rows of its input (observed for rows of points); the property makes no
    # claim about that, so the original is taken from the copy made before the call and this is only labelled.
    ctx.label("helper-input-modified", cp != before)
    cp = before
    if live is not None:
        ctx.label("control-points-of-a-living-curve")
        R0 = ref.Spline([p], [kv], [n], cp, d["rational"])
        for us in shape.lattice([p], [kv], [n], limit=9):
            pa, sc = R0.point(us)
            got = live.evaluate_single(float(us[0]))
            ctx.check(ref.vec_close(got, pa, sc, 1e-9), "helper-moved-source-curve",
                      "after knot_refinement(curve.degree, curve.knotvector, curve.ctrlpts%s, %r) the curve itself evaluates to %r at %r, before %r"
                      % ("w" if d["rational"] else "", kw, got, float(us[0]), ref.fl(pa)))
    want = sorted(U + X)
    ctx.check(len(new_kv) == len(want), "helper-knot-count", "knot_refinement returned %d knots, expected %d (%r)" % (len(new_kv), len(want), new_kv))
    ctx.check(all(x <= y for x, y in zip(new_kv, new_kv[1:])), "helper-knots-unsorted", "returned knot vector decreases: %r" % (new_kv,))
    ctx.check(all(abs(F(x) - w) <= F(1, 10 ** 12) * max(1, abs(w)) for x, w in zip(new_kv, want)), "helper-knot-vector",
              "returned knot vector %r, expected %r" % (new_kv, [float(w) for w in want]))
    ctx.check(len(new_cp) == n + len(X), "helper-net-size", "returned %d control points, expected %d" % (len(new_cp), n + len(X)))
    lat = shape.lattice([p], [new_kv], [n + len(X)], limit=11)
    for j in range(max(rows, 1)):
        old = ref.Spline([p], [kv], [n], [q[j] for q in cp] if rows else cp, d["rational"])
        new = ref.Spline([p], [new_kv], [n + len(X)], [q[j] for q in new_cp] if rows else new_cp, d["rational"])
        for us in lat:
            pa, sc = old.point(us)
            pb, _ = new.point(us)
            ctx.check(all(abs(x - y) <= F(1, 10 ** 9) * sc for x, y in zip(pa, pb)), "helper-shape-changed",
                      "knot_refinement(%r): point at %r moved from %r to %r" % (kw, float(us[0]), ref.fl(pa), ref.fl(pb)))


SUBCHECKS = [
    SubCheck("refine", _refine_cases, check_refine, quick=300, thorough=1200, shards_quick=2,
             rule="non-trivial = non-uniform breakpoints, or existing multiplicity >= 2, or density >= 2, or surface/volume"),
    SubCheck("helper", _helper_cases, check_helper, quick=400, thorough=2000,
             rule="helper-level knot_refinement with default / explicit / additional knot lists (incl. lists wholly inside the "
                  "first or last span); non-trivial = explicit list, or existing multiplicity >= 2, or density >= 2, or rows"),
]

# coverage-guided tier (thorough only): (sub-check, libFuzzer runs per process, processes)
FUZZ = [("helper", 20000, 3)]
