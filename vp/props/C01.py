"""C01 - evaluated points equal the B-spline / NURBS definition (DESIGN.md section 5, C01)."""
from fractions import Fraction as F

from hypothesis import strategies as st

from vp import gen, build, ref
from vp.core import SubCheck, Skip

RULE = ("Cases: generated curve/surface/volume definitions (BSpline or NURBS, clamped or unclamped, normalised or "
        "affine knot range) with parameter descriptors resolved against the stored knot vector; oracle = exact "
        "Cox-de Boor polynomial reference in Fractions.")
ASSUMPTIONS = ["tolerance |x - ref| <= 1e-9 * max(1, sum |N_i| |P_i|) (exact scale)"]


def _nontrivial(ctx, d, kinds=()):
    ctx.nt(build.has_repeated_interior(d), "repeated-knot")
    ctx.nt(d.get("unclamped", False), "unclamped")
    ctx.nt(bool(d.get("affine")), "affine-range")
    ctx.nt(build.varied_weights(d), "varied-weights")
    ctx.nt(any(k in ("knot", "end") for k in kinds), "on-knot-or-end")
    ctx.nt(d["kind"] == "volume", "volume")
    ctx.label("kind:" + d["kind"])
    ctx.label("rational" if d["rational"] else "nonrational")
    ctx.label("normalize" if d["normalize"] else "no-normalize")


# ------------------------------------------------------------------------------------------------ single points
@st.composite
def _single_cases(draw, tier):
    big = tier == "thorough"
    # the documented ``precision`` keyword (decimal places kept when knot vectors are normalised); default 18
    precision = draw(st.sampled_from([None, None, None, None, None, 3, 4, 8]))
    d = draw(gen.spline(ranges=("far",), max_p=7 if big else 4, max_extra=8 if big else 4, dims=None,
                        unclamped="maybe", affine_range="maybe", normalize="maybe",
                        vol_max_p=3, vol_max_extra=3 if big else 2, micro=precision is None, long=True))
    if precision is not None:
        d["precision"] = precision
    if draw(st.integers(0, 9)) == 0:
        # n-D shape (4 coordinates)
        d["P"] = [p + [p[0] * 0.5] * (4 - len(p)) for p in d["P"]]
        d["dim"] = 4
    e_ = draw(st.sampled_from([0, 0, 0, 0, 0, -12, -12, -30, 24]))
    if e_:
        # a model in small (or large) units: coordinates are multiples of 2^-15 (2^-33, 2^21) instead of 1/8
        d["P"] = [[c * 2.0 ** e_ for c in q] for q in d["P"]]
        d["fine_coordinates"] = True
    pdim = len(d["degree"])
    prm = draw(st.lists(gen.params(pdim), min_size=1, max_size=4))
    mode = draw(st.sampled_from(["w", "w", "pw", "pww"]))
    return {"defn": d, "params": prm, "mode": mode, "option": draw(st.sampled_from([None, None, None, "binsearch", "evaluator2"]))}


def check_single(case, ctx):
    d = case["defn"]
    if d.get("precision") is not None:
        obj = build.make(d, mode=case["mode"], precision=d["precision"])
        ctx.label("precision-keyword")
        for p_, kv_, n_ in zip(d["degree"], build.kvs_of(obj), d["size"]):
            if any(sum(1 for k in kv_[p_ + 1:n_] if k == x) > p_ for x in set(kv_[p_ + 1:n_])) or not (kv_[p_] < kv_[n_]):
                raise Skip("rounding the knots to %d decimals merged knots beyond the degree" % d["precision"])
    else:
        handed = {}
        obj = build.make(d, mode=case["mode"], inputs=handed)
        if len(d["P"]) % 3 == 0:
            # the caller re-uses (overwrites) the lists it handed to the setters; the shape is still the one that was defined
            build.scribble(handed, knots=bool(d.get("normalize", True)))
            ctx.label("callers-lists-overwritten")
    if case.get("option") == "binsearch" and d.get("precision") is None:
        from geomdl import helpers as _h
        obj = build.make(d, mode=case["mode"], find_span_func=_h.find_span_binsearch)          # documented alternative span search
        ctx.label("binary-span-search")
    elif case.get("option") == "evaluator2" and not d["rational"] and d["kind"] in ("curve", "surface"):
        from geomdl import evaluators as _ev
        obj.evaluator = _ev.CurveEvaluator2() if d["kind"] == "curve" else _ev.SurfaceEvaluator2()          # documented alternative evaluator
        ctx.label("alternative-evaluator")
    R = build.exact_from(d, obj)
    allkinds = []
    plist = []
    for descs in case["params"]:
        us, kinds = build.resolve_params(obj, descs)
        allkinds += kinds
        plist.append(us)
    _nontrivial(ctx, d, allkinds)
    refs = []
    for us in plist:
        r, scale = R.point(us)
        refs.append((r, scale))
        got = obj.evaluate_single(build.call_param(obj, us))
        ctx.check(ref.vec_close(got, r, scale), "evaluate_single",
                  "evaluate_single(%r) = %r, definition gives %r" % (us, got, ref.fl(r)))
        if d["kind"] in ("curve", "surface"):
            if d["kind"] == "curve":
                z = obj.derivatives(us[0], 0)
                ctx.check(len(z) == 1, "derivatives0-shape", "derivatives(order=0) returned %d entries" % len(z))
                z0 = z[0]
            else:
                z = obj.derivatives(us[0], us[1], 0)
                z0 = z[0][0]
            ctx.check(ref.vec_close(z0, r, scale), "derivatives0",
                      "derivatives(%r, order=0)[0] = %r, definition gives %r" % (us, z0, ref.fl(r)))
        # evaluator entry point
        pt = obj.evaluator.evaluate(obj.data, start=build.call_param(obj, us), stop=build.call_param(obj, us))
        ctx.check(len(pt) == 1, "evaluator-shape", "evaluator.evaluate(start=stop) returned %d points" % len(pt))
        e0 = pt[0]
        if d["rational"]:
            # the rational evaluators return Cartesian points
            pass
        ctx.check(ref.vec_close(e0, r, scale), "evaluator",
                  "evaluator.evaluate at %r = %r, definition gives %r" % (us, e0, ref.fl(r)))
    # parameters that are whole numbers (both ends of a [0, 1] domain, ends of integer knot ranges) written as Python ints
    ints = [(us, rs) for us, rs in zip(plist, refs) if all(float(int(u)) == u for u in us)]
    if ints:
        ctx.label("integer-typed-parameters")
        for us, (r, scale) in ints:
            ius = [int(u) for u in us]
            gi = obj.evaluate_single(build.call_param(obj, ius))
            ctx.check(ref.vec_close(gi, r, scale), "evaluate_single-int", "evaluate_single(%r) = %r, definition gives %r" % (ius, gi, ref.fl(r)))
        mixed = [build.call_param(obj, [int(u) for u in us]) if (us, rs) in ints else build.call_param(obj, us) for us, rs in zip(plist, refs)]
        gl = obj.evaluate_list(mixed)
        ctx.check(len(gl) == len(plist), "evaluate_list-int-size", "evaluate_list(%r) returned %d points for %d in-domain parameters" % (mixed, len(gl), len(plist)))
        for g, (r, scale), us in zip(gl, refs, mixed):
            ctx.check(ref.vec_close(g, r, scale), "evaluate_list-int", "evaluate_list entry for %r = %r, definition gives %r" % (us, g, ref.fl(r)))
    got = obj.evaluate_list([build.call_param(obj, us) for us in plist])
    ctx.check(len(got) == len(plist), "evaluate_list-size",
              "evaluate_list of %d in-domain parameters returned %d points" % (len(plist), len(got)))
    for g, (r, scale), us in zip(got, refs, plist):
        ctx.check(ref.vec_close(g, r, scale), "evaluate_list",
                  "evaluate_list entry for %r = %r, definition gives %r" % (us, g, ref.fl(r)))


# ------------------------------------------------------------------------------------------------ sampled grid
@st.composite
def _grid_cases(draw, tier):
    big = tier == "thorough"
    d = draw(gen.spline(max_p=5 if big else 3, max_extra=5 if big else 3,
                        unclamped="maybe", affine_range="maybe", normalize="maybe", vol_max_p=2, vol_max_extra=2))
    pdim = len(d["degree"])
    hi = 40 if big else 12
    if d["kind"] == "volume":
        hi = 7 if big else 5
    ns = draw(st.permutations(list(range(2, hi + 1))))[:pdim]
    use_single_delta = draw(st.booleans())
    if use_single_delta:
        ns = [ns[0]] * pdim
    elif draw(st.integers(0, 9)) == 0:
        # one direction sampled densely (sizes where 1/(1/n) is not exactly n in floating point), the others coarsely
        ns = [2] * pdim
        ns[draw(st.integers(0, pdim - 1))] = draw(st.sampled_from([93, 99, 105, 117, 123, 49, 98, 103, 107]))
    sub = None
    if d["kind"] != "volume" and draw(st.booleans()):
        sub = [draw(gen.params(pdim)), draw(gen.params(pdim))]
    raw = None
    if draw(st.integers(0, 4)) == 0:
        # densities given directly as delta values that are not 1/N (incl. values where 1/delta is a half-integer)
        raw = [draw(st.sampled_from([0.4, 0.08, 2.0 / 9.0, 0.3, 0.15, 0.35, 0.22, 0.6, 2.0 / 7.0, 0.0625, 0.13])) for _ in range(pdim)]
        if d["kind"] == "volume":
            raw = [max(x, 0.2) for x in raw]
    return {"defn": d, "n": list(ns), "single_delta": use_single_delta, "sub": sub, "via_sample_size": draw(st.booleans()), "raw_delta": raw,
            "descending": [draw(st.integers(0, 3)) == 0 for _ in range(pdim)]}


def _multiset(pts):
    return sorted(tuple(round(c, 9) for c in p) for p in pts)


def _same_multiset(A, B, rel=1e-7):
    """Every point of B is matched by a distinct point of A within tolerance (greedy nearest match; sorting rounded
    coordinates is not a sound way to pair points that differ in the 10th digit)."""
    if len(A) != len(B):
        return False
    left = [list(p) for p in A]
    for q in B:
        best, bi = None, -1
        for i, p in enumerate(left):
            dlt = max(abs(x - y) for x, y in zip(p, q)) if len(p) == len(q) else float("inf")
            if best is None or dlt < best:
                best, bi = dlt, i
        if best is None or best > rel * (1 + max(abs(y) for y in q)):
            return False
        left.pop(bi)
    return True


def check_grid(case, ctx):
    import itertools
    d = case["defn"]
    obj = build.make(d)
    R = build.exact_from(d, obj)
    ns = case["n"]
    pdim = len(ns)
    if case.get("raw_delta"):
        import math
        raw = case["raw_delta"]
        obj.delta = raw[0] if pdim == 1 else tuple(raw)
        # documented relation between delta and the number of samples: sample_size = floor(1/delta + 0.5)
        ns = [int(math.floor(1.0 / x + 0.5)) for x in raw]
        ctx.label("raw-delta")
        per_dir = [obj.sample_size] if pdim == 1 else [getattr(obj, "sample_size_" + c) for c in "uvw"[:pdim]]
        ctx.check(per_dir == ns, "sample_size", "delta %r gives per-direction sample sizes %r, documented floor(1/delta + 0.5) = %r" % (raw, per_dir, ns))
        ctx.check(list(obj.data["sample_size"]) == ns, "sample_size", "delta %r: the evaluators are handed sample sizes %r, the shape reports %r" % (raw, list(obj.data["sample_size"]), ns))
    elif case.get("via_sample_size"):
        # the documented way to ask for N points per direction
        ctx.label("via-sample_size-setter")
        if pdim == 1 or case["single_delta"]:
            obj.sample_size = ns[0]
        else:
            for k, nm in enumerate(("sample_size_u", "sample_size_v", "sample_size_w")[:pdim]):
                setattr(obj, nm, ns[k])
    elif pdim == 1 or case["single_delta"]:
        obj.delta = 1.0 / ns[0]
    else:
        obj.delta = tuple(1.0 / n for n in ns)
    ss = obj.sample_size if pdim > 1 else [obj.sample_size]
    ctx.check(list(ss) == list(ns), "sample_size", "asking for %r samples per direction gives sample_size %r" % (ns, ss))
    dom = R.domain()
    start = [a for a, b in dom]
    stop = [b for a, b in dom]
    kinds = []
    if case["sub"] is not None:
        s0, k0 = build.resolve_params(obj, case["sub"][0])
        s1, k1 = build.resolve_params(obj, case["sub"][1])
        lo = [min(a, b) for a, b in zip(s0, s1)]
        hi = [max(a, b) for a, b in zip(s0, s1)]
        if all(h - l > 1e-6 for l, h in zip(lo, hi)):
            for k, desc_ in enumerate(case.get("descending", [])):
                if desc_:
                    # a range given from its upper to its lower end is sampled in that order
                    lo[k], hi[k] = hi[k], lo[k]
                    ctx.label("descending-subrange")
            start, stop = [F(x) for x in lo], [F(x) for x in hi]
            kinds = k0 + k1
            ctx.label("subrange")
            if pdim == 1:
                obj.evaluate(start=lo[0], stop=hi[0])
            else:
                obj.evaluate(start_u=lo[0], stop_u=hi[0], start_v=lo[1], stop_v=hi[1])
    _nontrivial(ctx, d, kinds + ["end"])
    ctx.nt(len(set(ns)) == pdim and pdim > 1, "different-sample-sizes")
    pts = obj.evalpts
    total = 1
    for n in ns:
        total *= n
    ctx.check(len(pts) == total, "grid-size", "evalpts has %d points, expected prod(sample sizes) = %d" % (len(pts), total))
    grids = [[start[k] + (stop[k] - start[k]) * F(i, ns[k] - 1) for i in range(ns[k])] for k in range(pdim)]
    expect = []
    for idx in itertools.product(*[range(n) for n in ns]):
        us = [grids[k][idx[k]] for k in range(pdim)]
        expect.append((idx, R.point(us)))
    if pdim < 3:
        # documented ordering: last parametric direction (v) varies fastest
        for (idx, (r, scale)), g in zip(expect, pts):
            ctx.check(ref.vec_close(g, r, scale, 1e-8), "grid-order",
                      "evalpts entry for grid index %r = %r, definition gives %r" % (idx, g, ref.fl(r)))
    else:
        # volume ordering is undocumented: compare as a multiset, plus first and last element
        for (idx, (r, scale)), which in ((expect[0], 0), (expect[-1], -1)):
            ctx.check(ref.vec_close(pts[which], r, scale, 1e-8), "grid-corner",
                      "volume evalpts[%d] = %r, corner is %r" % (which, pts[which], ref.fl(r)))
        ctx.check(_same_multiset(pts, [[float(c) for c in r] for _, (r, _s) in expect]), "grid-multiset", "volume evalpts is not the set of grid evaluations")
    # clamped shapes: the full grid starts and ends exactly on the corner control points
    if case["sub"] is None or not kinds:
        if not d.get("unclamped"):
            first, last = d["P"][0], d["P"][-1]
            ctx.check(all(abs(x - y) <= 1e-12 * (1 + abs(y)) for x, y in zip(pts[0], first)), "first-corner",
                      "evalpts[0] = %r but first control point is %r" % (pts[0], first))
            ctx.check(all(abs(x - y) <= 1e-12 * (1 + abs(y)) for x, y in zip(pts[-1], last)), "last-corner",
                      "evalpts[-1] = %r but last control point is %r" % (pts[-1], last))


def check_grid_reuse(case, ctx):
    """The sampled grid equals the definition also when the same object is re-sampled after its control points
    or sampling density were replaced (evaluation entry points read the current definition)."""
    import itertools
    d = case["defn"]
    obj = build.make(d)
    ns = [min(x, 9) for x in case["n"]]          # the dense-sampling class belongs to the 'grid' sub-check
    pdim = len(ns)
    obj.delta = 1.0 / ns[0]
    first = [list(p) for p in obj.evalpts]
    ctx.check(len(first) == ns[0] ** pdim, "grid-size", "evalpts has %d points" % len(first))
    d2 = dict(d)
    d2["P"] = [[c + 1.0 + i * 0.5 for i, c in enumerate(p)] for p in d["P"]]
    how = case["single_delta"]
    if how:
        obj.ctrlpts = [list(p) for p in d2["P"]]
    else:
        if d["rational"]:
            obj.set_ctrlpts(build.homogeneous(d2["P"], d["W"]), *d["size"])
        else:
            obj.set_ctrlpts([list(p) for p in d2["P"]], *d["size"])
    if pdim > 1 and len(set(ns)) > 1:
        obj.delta = tuple(1.0 / n for n in ns)
    else:
        ns = [ns[0]] * pdim
    R = build.exact_from(d2, obj)
    _nontrivial(ctx, d, ["end"])
    ctx.nt(True, "re-sampled")
    pts = obj.evalpts
    total = 1
    for n in ns:
        total *= n
    ctx.check(len(pts) == total, "grid-size", "re-sampled evalpts has %d points, expected %d" % (len(pts), total))
    dom = R.domain()
    grids = [[dom[k][0] + (dom[k][1] - dom[k][0]) * F(i, ns[k] - 1) for i in range(ns[k])] for k in range(pdim)]
    for g, idx in zip(pts, itertools.product(*[range(n) for n in ns])):
        r, scale = R.point([grids[k][idx[k]] for k in range(pdim)])
        ctx.check(ref.vec_close(g, r, scale, 1e-8), "grid-after-edit",
                  "after replacing the control points, evalpts entry %r = %r, definition gives %r" % (idx, g, ref.fl(r)))
    if d["kind"] != "volume":
        us = [float(grids[k][-1]) for k in range(pdim)]
        r, scale = R.point(us)
        got = obj.evaluate_single(build.call_param(obj, us))
        ctx.check(ref.vec_close(got, r, scale), "single-after-edit", "evaluate_single after edit = %r, definition %r" % (got, ref.fl(r)))
    # second stage: only the sampling density changes, the grid follows
    m = 3 + (ns[0] % 4)
    if case.get("via_sample_size"):
        obj.sample_size = m
    else:
        obj.delta = 1.0 / m
    pts = obj.evalpts
    ctx.check(len(pts) == m ** pdim, "grid-size", "after changing the density to %d samples per direction evalpts has %d points" % (m, len(pts)))
    grids = [[dom[k][0] + (dom[k][1] - dom[k][0]) * F(i, m - 1) for i in range(m)] for k in range(pdim)]
    if pdim < 3:
        for g, idx in zip(pts, itertools.product(*[range(m)] * pdim)):
            r, scale = R.point([grids[k][idx[k]] for k in range(pdim)])
            ctx.check(ref.vec_close(g, r, scale, 1e-8), "grid-after-density-change",
                      "after changing the density, evalpts entry %r = %r, definition gives %r" % (idx, g, ref.fl(r)))


SUBCHECKS = [
    SubCheck("single", _single_cases, check_single, quick=500, thorough=2500, shards_quick=2,
             rule="non-trivial = repeated interior knot, or unclamped, or affine (non-normalised) range, or varied "
                  "weights, or a parameter on an interior knot / at the domain end, or a volume"),
    SubCheck("grid", _grid_cases, check_grid, quick=250, thorough=1200, shards_quick=2,
             rule="non-trivial = as 'single' (the grid always contains the domain end) or pairwise different sample sizes"),
    SubCheck("grid_reuse", _grid_cases, check_grid_reuse, quick=150, thorough=800,
             rule="every case re-samples one object after its control points were replaced"),
]
