"""C07 - splitting and Bezier decomposition reproduce the original piecewise (DESIGN.md section 5, C07)."""
import itertools
from fractions import Fraction as F

from hypothesis import strategies as st

from geomdl import operations, helpers
from geomdl.exceptions import GeomdlException

from vp import gen, build, ref, shape
from vp.core import SubCheck

RULE = ("Cases: generated clamped curves and surfaces (rational or not, normalised or affine range); split parameter "
        "inside a span or on a knot of any multiplicity; decomposition directions u, v, uv; oracle = exact reference of "
        "the original evaluated at the affine image of each piece's own domain.")
ASSUMPTIONS = ["pieces are evaluated through evaluate_single (decided by C01) and compared with the exact reference of the input",
               "tolerance 1e-8 * exact magnitude scale (pieces re-normalise their knot vectors)"]

TS = [F(i, 8) for i in range(9)]


def _piece_matches(ctx, R, piece, boxes, tag, what):
    """piece(t) == R(affine image of t) on a lattice; boxes = per direction (lo, hi) sub-interval of the original."""
    pdim = R.pdim
    dom = [(F(a), F(b)) for a, b in ([piece.domain] if pdim == 1 else piece.domain)]
    ts = TS if pdim == 1 else TS[::2]
    for tt in itertools.product(ts, repeat=pdim):
        own = [d0 + (d1 - d0) * t for (d0, d1), t in zip(dom, tt)]
        orig = [lo + (hi - lo) * t for (lo, hi), t in zip(boxes, tt)]
        r, scale = R.point(orig)
        got = piece.evaluate_single(build.call_param(piece, [float(x) for x in own]))
        ctx.check(ref.vec_close(got, r, scale, 1e-8), tag,
                  "%s: piece at %r (original parameter %r) is %r, original gives %r" % (what, [float(x) for x in own], [float(x) for x in orig], got, ref.fl(r)))


@st.composite
def _split_cases(draw, tier):
    big = tier == "thorough"
    d = draw(gen.spline(ranges=("far",), kinds=("curve", "surface"), max_p=5 if big else 4, max_extra=5 if big else 4,
                        affine_range="maybe", normalize="maybe", long=True))
    pdim = len(d["degree"])
    c = {"defn": d, "dir": draw(st.integers(0, pdim - 1)),
         "where": draw(st.one_of(gen.param_desc(), gen.param_desc(), st.just(["start"]), st.just(["end"]), st.just(["zero", 0, 0]))),
         "read": draw(st.booleans()), "binsearch": draw(st.integers(0, 3)) == 0}
    if c["where"][0] == "zero" and not d.get("long") and draw(st.booleans()):
        # a shape kept in its own parameter range, which has 0.0 strictly inside in the direction of the split
        k = c["dir"]
        kv, p, n = d["kv"][k], d["degree"][k], d["size"][k]
        shift = kv[p] + (kv[n] - kv[p]) * draw(st.sampled_from([0.25, 0.375, 0.5]))
        d["kv"][k] = [x - shift for x in kv]
        d["normalize"] = False
    return c


def _sampled_before(obj, mode):
    """The caller sampled the input before the operation: the whole domain (mode 1) or, with the documented start/stop keywords,
    the middle half of it (mode 2).  Returns a copy of the points the input then reports."""
    if not mode:
        return None
    obj.delta = 0.25
    if mode == 2:
        doms = [obj.domain] if obj.pdimension == 1 else list(obj.domain)
        kw = {}
        for name, (a, b) in zip(("",) if obj.pdimension == 1 else ("_u", "_v"), doms):
            kw["start" + name], kw["stop" + name] = a + 0.25 * (b - a), a + 0.75 * (b - a)
        obj.evaluate(**kw)
    return [list(q) for q in obj.evalpts]


def _kw(case):
    # the documented alternative span search of the split / decompose functions
    return {"find_span_func": helpers.find_span_binsearch} if case.get("binsearch") else {}


def _split(obj, k, u, **kw):
    if obj.pdimension == 1:
        return operations.split_curve(obj, u, **kw)
    return operations.split_surface_u(obj, u, **kw) if k == 0 else operations.split_surface_v(obj, u, **kw)


def check_split(case, ctx):
    d = case["defn"]
    obj = build.make(d)
    R = build.exact_from(d, obj)
    pdim = len(d["degree"])
    k = case["dir"]
    kvs, szs = build.kvs_of(obj), build.sizes_of(obj)
    where = case["where"]
    if where[0] == "edge":
        where = ["in"] + list(where[1:3])          # (a split a hair's breadth from the end of the domain is a split at the end for the library)
    if where[0] == "near":
        # splitting inserts knots: stay 2^-18 away from existing knots (the library identifies knots closer than 1e-7)
        where = list(where[:4]) + [2.0 ** -18]
    u, kind = build.resolve_param(d["degree"][k], kvs[k], szs[k], where, others=[o for j, o in enumerate(kvs) if j != k])
    u_call = u
    if where[0] == "within" and kind == "near":
        # a parameter the library identifies with an existing knot (closer than 10e-8): the split is the split at that knot
        u = min((x for x in kvs[k] if abs(x - u) <= 1e-7), key=lambda x: abs(x - u))
        kind = "knot"
        ctx.label("parameter-identified-with-a-knot-by-tolerance")
    ctx.label("param-is-knot-of-other-direction", case["where"][0] == "other" and pdim > 1)
    if case["where"][0] == "decimal" and kind == "in" and len(d["P"]) % 2 == 0:
        # the split position was made a knot before, by inserting the very same float (a normalising shape stores it rounded to
        # 18 decimals): the split is then a split at that knot
        prm, cnt = [None] * pdim, [0] * pdim
        prm[k], cnt[k] = u, 1
        operations.insert_knot(obj, prm, cnt)
        kvs, szs = build.kvs_of(obj), build.sizes_of(obj)
        kind = "knot"
        ctx.label("split-at-a-knot-inserted-before-with-the-same-float")
    sampled = _sampled_before(obj, (1 + len(d["P"]) % 2) if case["read"] else 0)
    before = build.snapshot(obj)
    views_before = ([list(p) for p in obj.ctrlpts], list(obj.weights) if obj.rational else None)
    dom = R.domain()
    ctx.label("kind:" + d["kind"])
    ctx.label("affine", bool(d.get("affine")))
    ctx.label("param-near-knot", kind == "near")
    if kind in ("start", "end"):
        ctx.nt(True, "split-at-domain-end")
        raised = False
        try:
            _split(obj, k, u_call, **_kw(case))
        except GeomdlException:
            raised = True
        ctx.check(raised, "end-split-not-rejected", "splitting at the domain end %r (dir %d) was accepted" % (u, k))
        ctx.check(build.snapshot(obj) == before, "input-modified", "rejected split modified the input")
        return
    s = shape.multiplicity(kvs[k], u)
    ctx.nt(s >= 1, "split-on-knot")
    ctx.nt(s >= 2 or build.has_repeated_interior(d), "multiplicity>=2")
    ctx.nt(build.varied_weights(d), "rational-varied")
    ctx.nt(pdim == 2, "surface")
    ctx.label("binary-span-search", bool(case.get("binsearch")))
    pieces = _split(obj, k, u_call, **_kw(case))
    ctx.check(len(pieces) == 2, "piece-count", "split returned %d pieces" % len(pieces))
    ctx.check(build.snapshot(obj) == before, "input-modified", "split modified its input")
    views_after = ([list(p) for p in obj.ctrlpts], list(obj.weights) if obj.rational else None)
    ctx.check(views_after == views_before, "input-modified", "after the split the input reports other control points / weights (%d points, before %d)" % (len(views_after[0]), len(views_before[0])))
    if sampled is not None:
        now = [list(q) for q in obj.evalpts]
        ctx.check(now == sampled, "input-modified", "after the split the input reports other evaluated points (%d, before %d)" % (len(now), len(sampled)))
    for i, pc in enumerate(pieces):
        ctx.check(pc is not obj, "piece-is-input", "split returned the input object")
        ctx.check(bool(pc.rational) == d["rational"], "rationality", "piece %d rational=%r" % (i, pc.rational))
        ctx.check(build.degrees_of(pc) == d["degree"], "degree", "piece %d has degrees %r, input %r" % (i, build.degrees_of(pc), d["degree"]))
        boxes = list(dom)
        boxes[k] = (dom[k][0], F(u)) if i == 0 else (F(u), dom[k][1])
        _piece_matches(ctx, R, pc, boxes, "piece-differs", "split at %r (dir %d), piece %d" % (u, k, i))


# ------------------------------------------------------------------------------------------------ decomposition
@st.composite
def _decomp_cases(draw, tier):
    big = tier == "thorough"
    d = draw(gen.spline(kinds=("curve", "surface"), max_p=4 if big else 3, max_extra=5 if big else 4,
                        affine_range="maybe", normalize="maybe"))
    return {"defn": d, "dir": draw(st.sampled_from(["u", "v", "uv"])), "binsearch": draw(st.integers(0, 3)) == 0}


def _intervals(p, kv, n):
    bps = sorted(set(F(x) for x in kv[p:n + 1]))
    return list(zip(bps, bps[1:]))


def check_decompose(case, ctx):
    d = case["defn"]
    obj = build.make(d)
    R = build.exact_from(d, obj)
    pdim = len(d["degree"])
    sampled = _sampled_before(obj, len(d["P"]) % 3)
    before = build.snapshot(obj)
    views_before = ([list(p) for p in obj.ctrlpts], list(obj.weights) if obj.rational else None)
    kvs, szs = build.kvs_of(obj), build.sizes_of(obj)
    ivs = [_intervals(p, kv, n) for p, kv, n in zip(d["degree"], kvs, szs)]
    ctx.label("kind:" + d["kind"])
    ctx.nt(build.has_repeated_interior(d), "multiplicity>=2")
    ctx.nt(build.varied_weights(d), "rational-varied")
    ctx.nt(pdim == 2, "surface")
    if pdim == 1:
        pieces = operations.decompose_curve(obj, **_kw(case))
        boxes = [[iv] for iv in ivs[0]]
        dirs = "u"
    else:
        dirs = case["dir"]
        pieces = operations.decompose_surface(obj, decompose_dir=dirs, **_kw(case))
        dom = R.domain()
        if dirs == "u":
            boxes = [[iv, dom[1]] for iv in ivs[0]]
        elif dirs == "v":
            boxes = [[dom[0], iv] for iv in ivs[1]]
        else:
            boxes = [[iu, iv] for iu in ivs[0] for iv in ivs[1]]
    ctx.nt(len(boxes) >= 3, ">=3-pieces")
    ctx.label("dir:" + dirs)
    ctx.label("binary-span-search", bool(case.get("binsearch")))
    ctx.check(build.snapshot(obj) == before, "input-modified", "decomposition modified its input")
    ctx.check(([list(p) for p in obj.ctrlpts], list(obj.weights) if obj.rational else None) == views_before, "input-modified",
              "after the decomposition the input reports other control points / weights")
    if sampled is not None:
        now = [list(q) for q in obj.evalpts]
        ctx.check(now == sampled, "input-modified", "after the decomposition the input reports other evaluated points (%d, before %d)" % (len(now), len(sampled)))
    ctx.check(len(pieces) == len(boxes), "piece-count",
              "decompose(%s) returned %d pieces, the knot vectors have %d non-empty intervals (kv %r)" % (dirs, len(pieces), len(boxes), kvs))
    for i, (pc, box) in enumerate(zip(pieces, boxes)):
        ctx.check(build.degrees_of(pc) == d["degree"], "degree", "piece %d has degrees %r" % (i, build.degrees_of(pc)))
        ctx.check(bool(pc.rational) == d["rational"], "rationality", "piece %d rational=%r" % (i, pc.rational))
        pk, ps = build.kvs_of(pc), build.sizes_of(pc)
        for k in range(pdim):
            if dirs in ("uv",) or dirs == "uv"[k:k + 1] or pdim == 1:
                ctx.check(ps[k] == d["degree"][k] + 1 and len(set(pk[k])) == 2, "not-bezier",
                          "piece %d is not a Bezier piece in direction %d: size %d, knots %r" % (i, k, ps[k], pk[k]))
        _piece_matches(ctx, R, pc, box, "piece-differs", "decompose(%s) piece %d on %r" % (dirs, i, [[float(a), float(b)] for a, b in box]))
    ctx.check(all(pc is not obj for pc in pieces), "piece-is-input", "decompose(%s) returned the input object itself as a piece" % dirs)
    if pieces and pdim == 2:
        # the pieces are the caller's (also when there is only one): moving the control points of one of them does not touch the input
        pc0 = pieces[0]
        pc0.ctrlpts = [[c + 1.0 for c in q] for q in pc0.ctrlpts]
        ctx.check(build.snapshot(obj) == before, "piece-edit-changed-input", "moving the control points of a piece returned by decompose_surface(%s) changed the input surface" % dirs)
    # the pieces are the caller's: refining one of them does not touch the input (also when the input was one segment already)
    if pieces and pdim == 1:
        pc0 = pieces[0]
        a0, b0 = pc0.domain
        operations.insert_knot(pc0, [a0 + 0.375 * (b0 - a0)], [1])
        pc0.degree = pc0.degree          # (re-assigning the degree is an edit as well)
        ctx.check(build.snapshot(obj) == before, "piece-edit-changed-input", "inserting a knot into a piece returned by decompose_curve changed the input curve")
        ctx.check(([list(p) for p in obj.ctrlpts], list(obj.weights) if obj.rational else None) == views_before, "piece-edit-changed-input",
                  "after editing a returned piece the input reports other control points / weights")


SUBCHECKS = [
    SubCheck("split", _split_cases, check_split, quick=500, thorough=2500, shards_quick=2,
             rule="non-trivial = split on an existing knot, or multiplicity >= 2 somewhere, or rational varied weights, or surface, "
                  "or a (rejected) split at a domain end"),
    SubCheck("decompose", _decomp_cases, check_decompose, quick=300, thorough=1500,
             rule="non-trivial = multiplicity >= 2, or rational varied weights, or surface, or >= 3 pieces"),
]
