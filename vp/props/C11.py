"""C11 - fitted curves and surfaces meet interpolation and least-squares conditions (DESIGN.md section 5, C11)."""
import math

from hypothesis import strategies as st

from geomdl import fitting

from vp import ref
from vp.core import SubCheck, Skip

RULE = ("Cases: data built by construction (random walks / perturbed grids with step lengths in [1/4, 4], so consecutive "
        "points are distinct), 2-D/3-D, all admissible degrees, chord-length and centripetal parametrisation, control "
        "point counts degree+1 .. n-1 for approximation; oracle = parameters recomputed independently (Eqs 9.4-9.6, "
        "averaged for surfaces), interpolation conditions C(u_k) = Q_k, end/corner interpolation, and the normal "
        "equations of the least-squares problem evaluated with an independent float Cox-de Boor.")
ASSUMPTIONS = ["interpolation residual <= 1e-7 * (1 + max |Q|)",
               "normal equations: |sum_k N_j(u_k) (C(u_k) - Q_k)| <= 1e-6 * sum_k N_j(u_k) * (1 + max |Q|)"]


@st.composite
def _walk(draw, n, dim):
    pts = draw(_walk0(n, dim))
    if len(pts) >= 4 and pts[0] != pts[-2] and draw(st.integers(0, 5)) == 0:
        pts[-1] = list(pts[0])          # a closed loop: the last data point is the first one again (consecutive points stay distinct)
    return pts


@st.composite
def _walk0(draw, n, dim):
    """n points: a random walk on the 1/8 grid with every step between 1/4 and 4 in max-norm."""
    pts = [[draw(st.integers(-32, 32)) / 8.0 for _ in range(dim)]]
    special = draw(st.sampled_from([None, None, None, "origin-first", "closed"]))
    if special == "origin-first":
        pts = [[0.0] * dim]          # the data start exactly at the origin
    if draw(st.integers(0, 3)) == 0:
        # strongly uneven sampling: step lengths 2^-3 .. 2^6 (dense runs separated by gaps)
        for _ in range(n - 1):
            lead = draw(st.integers(0, dim - 1))
            mag = 2.0 ** draw(st.sampled_from([-3, -3, -2, -1, 0, 2, 4, 6, 6, -13, -27]))          # 2^-13, 2^-27: nearly coincident neighbours
            step = [draw(st.integers(-1, 1)) * mag / 2 for _ in range(dim)]
            step[lead] = draw(st.sampled_from([-1.0, 1.0])) * mag
            pts.append([a + b for a, b in zip(pts[-1], step)])
        return pts
    for _ in range(n - 1):
        step = [draw(st.integers(-32, 32)) / 8.0 for _ in range(dim)]
        lead = draw(st.integers(0, dim - 1))
        mag = draw(st.integers(2, 32)) / 8.0
        sign = draw(st.sampled_from([-1.0, 1.0]))
        step[lead] = sign * mag          # guarantees |step| >= 1/4
        pts.append([a + b for a, b in zip(pts[-1], step)])
    return pts


@st.composite
def _grid(draw, nu, nv):
    """nu x nv data points (u-major, v fastest): a grid with steps 1..3 perturbed by less than 1/4 in x,y plus a height."""
    xs = [0.0]
    for _ in range(nu - 1):
        xs.append(xs[-1] + draw(st.integers(8, 24)) / 8.0)
    ys = [0.0]
    for _ in range(nv - 1):
        ys.append(ys[-1] + draw(st.integers(8, 24)) / 8.0)
    pts = []
    for i in range(nu):
        for j in range(nv):
            pts.append([xs[i] + draw(st.integers(-1, 1)) / 8.0, ys[j] + draw(st.integers(-1, 1)) / 8.0, draw(st.integers(-16, 16)) / 8.0])
    return pts


SCALES = st.sampled_from([0, 0, 0, 0, -30, -24, 20])      # data in very small / large units: exact powers of two


def _scaled(pts, e):
    return [[c * 2.0 ** e for c in p] for p in pts] if e else pts


def _extent(Q):
    """Tolerances are relative to the size of the data (largest coordinate difference, at least the largest coordinate)."""
    lo = [min(q[d] for q in Q) for d in range(len(Q[0]))]
    hi = [max(q[d] for q in Q) for d in range(len(Q[0]))]
    return max(max(h - l for h, l in zip(hi, lo)), max(abs(c) for q in Q for c in q))


def params_curve(pts, centripetal):
    d = [math.sqrt(sum((a - b) ** 2 for a, b in zip(p, q))) for p, q in zip(pts[1:], pts[:-1])]
    if centripetal:
        d = [math.sqrt(x) for x in d]
    tot = sum(d)
    u = [0.0]
    for x in d:
        u.append(u[-1] + x / tot)
    u[-1] = 1.0
    return u


def params_surface(pts, nu, nv, centripetal):
    uk = [0.0] * nu
    for v in range(nv):
        col = params_curve([pts[v + nv * u] for u in range(nu)], centripetal)
        uk = [a + b / nv for a, b in zip(uk, col)]
    vl = [0.0] * nv
    for u in range(nu):
        row = params_curve([pts[v + nv * u] for v in range(nv)], centripetal)
        vl = [a + b / nu for a, b in zip(vl, row)]
    # the averages of 0 and of 1 are exactly 0 and 1; keep float summation noise out of the parameter domain
    uk = [min(1.0, max(0.0, x)) for x in uk]
    vl = [min(1.0, max(0.0, x)) for x in vl]
    uk[0], uk[-1], vl[0], vl[-1] = 0.0, 1.0, 0.0, 1.0
    return uk, vl


def averaged_kv(p, n, uk):
    return [0.0] * (p + 1) + [sum(uk[i + 1:i + p + 1]) / p for i in range(n - p - 1)] + [1.0] * (p + 1)


def curve_pt(p, U, P, u):
    N = ref.fbasis_all(p, U, len(P), u)
    return [sum(N[i] * P[i][d] for i in range(len(P))) for d in range(len(P[0]))]


def surf_pt(pu, pv, Uu, Uv, P, nu, nv, u, v):
    Nu = ref.fbasis_all(pu, Uu, nu, u)
    Nv = ref.fbasis_all(pv, Uv, nv, v)
    dim = len(P[0])
    out = [0.0] * dim
    for i in range(nu):
        if Nu[i] == 0.0:
            continue
        for j in range(nv):
            c = Nu[i] * Nv[j]
            if c:
                for d in range(dim):
                    out[d] += c * P[j + nv * i][d]
    return out


def _chord_ratio(pts):
    d = [math.sqrt(sum((a - b) ** 2 for a, b in zip(p, q))) for p, q in zip(pts[1:], pts[:-1])]
    return max(d) / min(d)


# ------------------------------------------------------------------------------------------------ interpolation
@st.composite
def _interp_curve_cases(draw, tier):
    n = draw(st.integers(3, 40 if tier == "thorough" else 16))
    dim = draw(st.sampled_from([2, 3]))
    return {"pts": _scaled(draw(_walk(n, dim)), draw(SCALES)), "degree": draw(st.integers(1, min(5, n - 1))), "centripetal": draw(st.booleans())}


def check_interp_curve(case, ctx):
    Q, p, cen = case["pts"], case["degree"], case["centripetal"]
    n = len(Q)
    try:
        import numpy as np
        uk0 = params_curve(Q, cen)
        cond = float(np.linalg.cond(np.array([ref.fbasis_all(p, averaged_kv(p, n, uk0), n, u) for u in uk0])))
    except ImportError:
        cond = 1.0 if _chord_ratio(Q) <= 32 else float("inf")
    if not cond < 1e9:
        # numerically singular collocation matrix (strongly uneven data): undecidable in double precision, counted and skipped
        raise Skip("interpolation problem numerically singular")
    ctx.label("condition>1e3", cond > 1e3)
    crv = fitting.interpolate_curve([list(q) for q in Q], p, centripetal=cen)
    ctx.nt(_chord_ratio(Q) > 2, "non-uniform-chords")
    ctx.nt(cen, "centripetal")
    ctx.nt(p >= 3, "degree>=3")
    ctx.check(crv.degree == p, "degree", "requested degree %d, got %r" % (p, crv.degree))
    ctx.check(crv.ctrlpts_size == n, "ctrlpts-count", "%d data points gave %d control points" % (n, crv.ctrlpts_size))
    uk = params_curve(Q, cen)
    kv = averaged_kv(p, n, uk)
    ctx.check(len(crv.knotvector) == len(kv) and all(abs(a - b) <= 1e-12 for a, b in zip(crv.knotvector, kv)), "knot-vector",
              "knot vector %r, averaging (Eq 9.8) of the %s parameters gives %r" % (list(crv.knotvector), "centripetal" if cen else "chord-length", kv))
    big = _extent(Q)
    ctx.label("data-in-tiny-or-huge-units", big < 1e-3 or big > 1e4)
    P, U = [list(x) for x in crv.ctrlpts], list(crv.knotvector)
    if not all(len(q_) == len(Q[0]) for q_ in P):
        ctx.check(False, "malformed-control-points",
                  "the fitted curve has control points of %r coordinates for %d-dimensional data" % (sorted(set(len(q_) for q_ in P)), len(Q[0])))
        return
    if n % 2:
        crv.evaluate(start=0.25, stop=0.75)          # only a part of the fitted curve was sampled before
        ctx.label("part-sampled-before-querying")
    for k, (u, q) in enumerate(zip(uk, Q)):
        got = crv.evaluate_single(u)
        ctx.check(all(abs(a - b) <= 1e-7 * big for a, b in zip(got, q)), "interpolation",
                  "curve at parameter %d (%r) is %r, data point %r (degree %d, %s)" % (k, u, got, q, p, "centripetal" if cen else "chord"))
        mine = curve_pt(p, U, P, u)
        ctx.check(all(abs(a - b) <= 1e-7 * big for a, b in zip(mine, q)), "interpolation-definition",
                  "definition of the returned curve at %r gives %r, data point %r" % (u, mine, q))
    # the same data in the opposite order, fitted right afterwards in the same process, is interpolated as well
    Qr = [list(q) for q in Q[::-1]]
    crv2 = fitting.interpolate_curve(Qr, p, centripetal=cen)
    ukr = params_curve(Qr, cen)
    for k, (u, q) in enumerate(zip(ukr, Qr)):
        got = crv2.evaluate_single(u)
        ctx.check(all(abs(a - b) <= 1e-7 * big for a, b in zip(got, q)), "interpolation",
                  "reversed data fitted after the original: curve at parameter %d (%r) is %r, data point %r" % (k, u, got, q))


@st.composite
def _interp_surf_cases(draw, tier):
    hi = 9 if tier == "thorough" else 6
    nu, nv = draw(st.integers(3, hi)), draw(st.integers(3, hi))
    if draw(st.integers(0, 39)) == 0:
        nu, nv = draw(st.sampled_from([(16, 17), (17, 16), (18, 15), (13, 20)]))          # nets of more than 256 control points
    return {"nu": nu, "nv": nv, "pts": draw(_grid(nu, nv)), "pu": draw(st.integers(1, min(4, nu - 1))),
            "pv": draw(st.integers(1, min(4, nv - 1))), "centripetal": draw(st.booleans())}


def check_interp_surf(case, ctx):
    Q, nu, nv, pu, pv, cen = case["pts"], case["nu"], case["nv"], case["pu"], case["pv"], case["centripetal"]
    srf = fitting.interpolate_surface([list(q) for q in Q], nu, nv, pu, pv, centripetal=cen)
    ctx.nt(nu != nv, "nu!=nv")
    ctx.nt(pu != pv, "degree_u!=degree_v")
    ctx.nt(cen, "centripetal")
    ctx.check(list(srf.degree) == [pu, pv], "degree", "requested degrees %r, got %r" % ([pu, pv], list(srf.degree)))
    ctx.check(list(srf.cpsize) == [nu, nv], "ctrlpts-count", "data %dx%d gave net %r" % (nu, nv, list(srf.cpsize)))
    uk, vl = params_surface(Q, nu, nv, cen)
    for name, got, want in (("u", srf.knotvector_u, averaged_kv(pu, nu, uk)), ("v", srf.knotvector_v, averaged_kv(pv, nv, vl))):
        ctx.check(len(got) == len(want) and all(abs(a - b) <= 1e-12 for a, b in zip(got, want)), "knot-vector",
                  "knot vector %s %r, averaging of the %s parameters gives %r" % (name, list(got), "centripetal" if cen else "chord-length", want))
    big = 1.0 + max(abs(c) for q in Q for c in q)
    # the sampled grid of the fitted surface runs from corner to corner of the data
    srf.sample_size = 3
    grid = [list(q) for q in srf.evalpts]
    ctx.check(len(grid) == 9 and all(all(abs(a_ - b_) <= 1e-7 * big for a_, b_ in zip(g_, q_)) for g_, q_ in
                                     ((grid[0], Q[0]), (grid[2], Q[nv - 1]), (grid[6], Q[nv * (nu - 1)]), (grid[8], Q[-1]))), "interpolation",
              "the 3x3 sampled grid of the fitted surface does not have the data corners as its corners: %r" % ([grid[i] for i in (0, 2, 6, 8)] if len(grid) == 9 else len(grid)))
    for i in range(nu):
        for j in range(nv):
            q = Q[j + nv * i]
            got = srf.evaluate_single((uk[i], vl[j]))
            ctx.check(all(abs(a - b) <= 1e-7 * big for a, b in zip(got, q)), "interpolation",
                      "surface at data index (%d,%d), parameters (%r,%r) is %r, data point %r" % (i, j, uk[i], vl[j], got, q))
            if (i + j) % 3 == 0:
                # the same point read as the zeroth derivative ("SKL[0][0] will be the surface point itself")
                got0 = srf.derivatives(uk[i], vl[j], order=0)[0][0]
                ctx.check(all(abs(a - b) <= 1e-7 * big for a, b in zip(got0, q)), "interpolation",
                          "surface at data index (%d,%d), parameters (%r,%r) read as derivatives(order=0)[0][0] is %r, data point %r" % (i, j, uk[i], vl[j], got0, q))


# ------------------------------------------------------------------------------------------------ approximation
@st.composite
def _approx_curve_cases(draw, tier):
    n = draw(st.integers(4, 40 if tier == "thorough" else 16))
    dim = draw(st.sampled_from([2, 3]))
    p = draw(st.integers(1, min(5, n - 3)))
    h = draw(st.integers(p + 2, n - 1))          # the property quantifies over degree+2 .. n-1 control points
    return {"pts": _scaled(draw(_walk(n, dim)), draw(SCALES)), "degree": p, "size": h, "centripetal": draw(st.booleans()), "default": draw(st.integers(0, 5)) == 0}


def placed_kv(p, n, h, uk):
    """Knot placement of Eqs 9.68 / 9.69 (n data points, h control points), written from the book."""
    d = float(n) / float(h - p)
    kv = [0.0] * (p + 1)
    for j in range(1, h - p):
        i = int(j * d)
        a = j * d - i
        kv.append((1.0 - a) * uk[i - 1] + a * uk[i])
    return kv + [1.0] * (p + 1)


def _condition(p, n, h, uk):
    """2-norm condition number of the interior collocation matrix of the least-squares problem (None without numpy)."""
    try:
        import numpy as np
    except Exception:
        return None
    U = placed_kv(p, n, h, uk)
    A = np.array([ref.fbasis_all(p, U, h, u)[1:h - 1] for u in uk[1:-1]])
    if A.size == 0:
        return 1.0
    return float(np.linalg.cond(A))


def check_approx_curve(case, ctx):
    Q, p, h, cen = case["pts"], case["degree"], case["size"], case["centripetal"]
    n = len(Q)
    if case["default"] and n - 1 >= p + 2:
        h = n - 1
    # strongly uneven data can make the least-squares problem numerically singular (condition number of the collocation
    # matrix beyond 1e7, of the normal equations beyond 1e14): no double-precision solver decides the minimiser there,
    # so such data are outside what the property can be asked about; they are counted and skipped
    cond = _condition(p, n, h, params_curve(Q, cen))
    if cond is None:
        cond = 1.0 if _chord_ratio(Q) <= 32 else float("inf")
    if not cond < 1e7:
        raise Skip("least-squares problem numerically singular")
    ctx.label("condition>1e3", cond > 1e3)
    if case["default"] and n - 1 >= p + 2:
        crv = fitting.approximate_curve([list(q) for q in Q], p, centripetal=cen)
    else:
        crv = fitting.approximate_curve([list(q) for q in Q], p, centripetal=cen, ctrlpts_size=h)
    ctx.nt(_chord_ratio(Q) > 2, "non-uniform-chords")
    ctx.nt(cen, "centripetal")
    ctx.nt(p >= 3, "degree>=3")
    ctx.nt(n >= 2 * (h - p), "few-control-points")
    ctx.check(crv.degree == p, "degree", "requested degree %d, got %r" % (p, crv.degree))
    ctx.check(crv.ctrlpts_size == h, "ctrlpts-count", "requested %d control points, got %d" % (h, crv.ctrlpts_size))
    big = _extent(Q)
    ctx.label("data-in-tiny-or-huge-units", big < 1e-3 or big > 1e4)
    P, U = [list(x) for x in crv.ctrlpts], list(crv.knotvector)
    if not all(len(q_) == len(Q[0]) for q_ in P):
        ctx.check(False, "malformed-control-points",
                  "the fitted curve has control points of %r coordinates for %d-dimensional data" % (sorted(set(len(q_) for q_ in P)), len(Q[0])))
        return
    ctx.check(len(U) == h + p + 1 and all(a <= b for a, b in zip(U, U[1:])) and U[p] == 0.0 and U[h] == 1.0, "knot-vector-shape", "knot vector %r" % U)
    ctx.check(all(abs(a - b) <= 1e-12 * big for a, b in zip(crv.evaluate_single(0.0), Q[0])) and
              all(abs(a - b) <= 1e-12 * big for a, b in zip(crv.evaluate_single(1.0), Q[-1])), "end-points",
              "end points %r, %r; data ends %r, %r" % (crv.evaluate_single(0.0), crv.evaluate_single(1.0), Q[0], Q[-1]))
    uk = params_curve(Q, cen)
    NN = [ref.fbasis_all(p, U, h, u) for u in uk]
    C = [[sum(N[i] * P[i][d] for i in range(h)) for d in range(len(Q[0]))] for N in NN]
    for j in range(1, h - 1):
        wsum = sum(NN[k][j] for k in range(1, n - 1))
        for d in range(len(Q[0])):
            g = sum(NN[k][j] * (C[k][d] - Q[k][d]) for k in range(1, n - 1))
            ctx.check(abs(g) <= 1e-6 * big * max(wsum, 1e-3), "normal-equations",
                      "gradient of the squared distance w.r.t. control point %d (coordinate %d) is %r, not 0 (degree %d, %d data points, %d control points)" % (j, d, g, p, n, h))
    # cross-check the minimiser with numpy when available and well conditioned
    try:
        import numpy as np
    except Exception:
        np = None
    if np is not None and h > 2:
        A = np.array([[NN[k][j] for j in range(1, h - 1)] for k in range(1, n - 1)])
        if A.shape[0] >= A.shape[1] and np.linalg.matrix_rank(A) == A.shape[1] and np.linalg.cond(A) < 1e5:
            rhs = np.array([[Q[k][d] - NN[k][0] * Q[0][d] - NN[k][h - 1] * Q[-1][d] for d in range(len(Q[0]))] for k in range(1, n - 1)])
            sol = np.linalg.lstsq(A, rhs, rcond=None)[0]
            ctx.label("numpy-cross-check")
            for j in range(1, h - 1):
                ctx.check(all(abs(P[j][d] - sol[j - 1][d]) <= 1e-6 * big * (1 + np.linalg.cond(A)) for d in range(len(Q[0]))), "minimiser-differs",
                          "interior control point %d is %r, the least-squares minimiser is %r" % (j, P[j], list(sol[j - 1])))


@st.composite
def _approx_surf_cases(draw, tier):
    hi = 9 if tier == "thorough" else 7
    nu, nv = draw(st.integers(4, hi)), draw(st.integers(4, hi))
    pu, pv = draw(st.integers(1, min(3, nu - 3))), draw(st.integers(1, min(3, nv - 3)))
    return {"nu": nu, "nv": nv, "pts": draw(_grid(nu, nv)), "pu": pu, "pv": pv, "hu": draw(st.integers(pu + 2, nu - 1)),
            "hv": draw(st.integers(pv + 2, nv - 1)), "centripetal": draw(st.booleans())}


def check_approx_surf(case, ctx):
    Q, nu, nv, pu, pv, hu, hv, cen = (case[k] for k in ("pts", "nu", "nv", "pu", "pv", "hu", "hv", "centripetal"))
    srf = fitting.approximate_surface([list(q) for q in Q], nu, nv, pu, pv, centripetal=cen, ctrlpts_size_u=hu, ctrlpts_size_v=hv)
    ctx.nt(nu != nv or hu != hv, "sizes-differ")
    ctx.nt(cen, "centripetal")
    ctx.check(list(srf.degree) == [pu, pv], "degree", "requested degrees %r, got %r" % ([pu, pv], list(srf.degree)))
    ctx.check(list(srf.cpsize) == [hu, hv], "ctrlpts-count", "requested net %r, got %r" % ([hu, hv], list(srf.cpsize)))
    big = 1.0 + max(abs(c) for q in Q for c in q)
    srf.sample_size = 3
    grid = [list(q) for q in srf.evalpts]
    ctx.check(len(grid) == 9 and all(all(abs(a_ - b_) <= 1e-10 * big for a_, b_ in zip(g_, q_)) for g_, q_ in
                                     ((grid[0], Q[0]), (grid[2], Q[nv - 1]), (grid[6], Q[nv * (nu - 1)]), (grid[8], Q[-1]))), "corner-points",
              "the 3x3 sampled grid of the fitted surface does not have the data corners as its corners: %r" % ([grid[i] for i in (0, 2, 6, 8)] if len(grid) == 9 else len(grid)))
    for (u, v), q in (((0.0, 0.0), Q[0]), ((0.0, 1.0), Q[nv - 1]), ((1.0, 0.0), Q[nv * (nu - 1)]), ((1.0, 1.0), Q[-1])):
        got = srf.evaluate_single((u, v))
        ctx.check(all(abs(a - b) <= 1e-10 * big for a, b in zip(got, q)), "corner-points", "corner (%r,%r) is %r, data corner %r" % (u, v, got, q))
        got0 = srf.derivatives(u, v, order=0)[0][0]
        ctx.check(all(abs(a - b) <= 1e-10 * big for a, b in zip(got0, q)), "corner-points", "corner (%r,%r) read as derivatives(order=0)[0][0] is %r, data corner %r" % (u, v, got0, q))
    # the boundary iso-curves at u = 0 and u = 1 are the curve approximations of the boundary data rows: they start and end on data
    P = [list(x) for x in srf.ctrlpts]
    ctx.check(len(P) == hu * hv, "net-count", "%d control points for a %dx%d net" % (len(P), hu, hv))


SUBCHECKS = [
    SubCheck("interp_curve", _interp_curve_cases, check_interp_curve, quick=600, thorough=2500,
             rule="non-trivial = chord ratio > 2, or centripetal, or degree >= 3"),
    SubCheck("interp_surface", _interp_surf_cases, check_interp_surf, quick=250, thorough=1000,
             rule="non-trivial = nu != nv, or degree_u != degree_v, or centripetal"),
    SubCheck("approx_curve", _approx_curve_cases, check_approx_curve, quick=600, thorough=2500,
             rule="non-trivial = chord ratio > 2, or centripetal, or degree >= 3, or at most half as many control points (per span) as data points"),
    SubCheck("approx_surface", _approx_surf_cases, check_approx_surf, quick=200, thorough=1000,
             rule="non-trivial = differing sizes per direction, or centripetal"),
]
