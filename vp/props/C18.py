"""C18 - shapes stay inside the hull of their control points (DESIGN.md section 5, C18)."""
import itertools
import math
from fractions import Fraction as F

from hypothesis import strategies as st

from geomdl import operations

from vp import gen, build, ref
from vp.core import SubCheck

RULE = ("Cases: generated curves/surfaces/volumes (positive weights, clamped/unclamped, affine ranges), parameters of all "
        "classes, 6 generated separating directions plus the coordinate axes; oracle = projection of the evaluated point "
        "lies between the min and max projection of the (degree+1)^dim active control points (own span arithmetic and "
        "operations.find_ctrlpts), sampled points inside the reported bounding box, clamped end points, chord <= length <= "
        "control polygon length.")
ASSUMPTIONS = ["tolerance 1e-9 * (1 + max |control point coordinate|) * |direction|"]


@st.composite
def _hull_cases(draw, tier):
    big = tier == "thorough"
    d = draw(gen.spline(max_p=5 if big else 4, max_extra=5 if big else 4, unclamped="maybe", affine_range="maybe",
                        normalize="maybe", vol_max_p=3, vol_max_extra=2, micro=True))
    pdim = len(d["degree"])
    prm = draw(st.lists(gen.params(pdim), min_size=1, max_size=4))
    dirs = [[draw(st.integers(-16, 16)) / 8.0 for _ in range(d["dim"])] for _ in range(6)]
    n = draw(st.integers(2, 5 if d["kind"] == "volume" else 9))
    return {"defn": d, "params": prm, "dirs": dirs, "n": n, "moved": draw(st.sampled_from([0, 0, 0, 1, 2]))}


def _dot(a, b):
    return sum(x * y for x, y in zip(a, b))


def check_hull(case, ctx):
    d = case["defn"]
    obj = build.make(d)
    if not d["rational"] and len(d["degree"]) <= 2 and len(d["P"]) % 3 == 0:
        # the documented alternative evaluation algorithm of non-rational curves and surfaces
        from geomdl import evaluators
        obj.evaluator = evaluators.CurveEvaluator2() if len(d["degree"]) == 1 else evaluators.SurfaceEvaluator2()
        ctx.label("alternative-evaluator")
    R = build.exact_from(d, obj)
    P = d["P"]
    big = 1.0 + max(abs(c) for p in P for c in p)
    dim = d["dim"]
    axes = [[1.0 if i == k else 0.0 for i in range(dim)] for k in range(dim)]
    dirs = [v for v in case["dirs"] if any(v)] + axes + [[-x for x in a] for a in axes]
    pdim = len(d["degree"])
    kinds_all = []
    for descs in case["params"]:
        us, kinds = build.resolve_params(obj, descs)
        kinds_all += kinds
        got = obj.evaluate_single(build.call_param(obj, us))
        act = [P[i] for i in R.active(us)]
        sets = [("span arithmetic", act)]
        if pdim == 1:
            fc = operations.find_ctrlpts(obj, us[0])
            ctx.check(len(fc) == d["degree"][0] + 1, "find_ctrlpts-count", "find_ctrlpts returned %d points for degree %d" % (len(fc), d["degree"][0]))
            sets.append(("find_ctrlpts", [list(p) for p in fc]))
        elif pdim == 2:
            fc = operations.find_ctrlpts(obj, us[0], us[1])
            flat = [list(p) for row in fc for p in row]
            ctx.check(len(fc) == d["degree"][0] + 1 and all(len(r) == d["degree"][1] + 1 for r in fc), "find_ctrlpts-count",
                      "find_ctrlpts returned shape %r for degrees %r" % ([len(r) for r in fc], d["degree"]))
            if d["rational"] and flat and len(flat[0]) == dim + 1:
                # for rational surfaces the lookup returns the stored homogeneous points (via ctrlpts2d); both
                # representations name the same control points, so de-homogenise before the hull test
                flat = [[c / p[-1] for c in p[:-1]] for p in flat]
                ctx.label("find_ctrlpts-homogeneous")
            sets.append(("find_ctrlpts", flat))
        touch = False
        readings = [("evaluate_single", got)]
        if pdim <= 2:
            # the documented second way to read the point: the zeroth derivative ("SKL[0][0] will be the surface point itself")
            readings.append(("derivatives(order=0)", obj.derivatives(us[0], order=0)[0] if pdim == 1 else obj.derivatives(us[0], us[1], order=0)[0][0]))
        for name, pts in sets:
            for v in dirs:
                nv = math.sqrt(_dot(v, v))
                lo = min(_dot(v, p) for p in pts)
                hi = max(_dot(v, p) for p in pts)
                tol = 1e-9 * big * nv
                for how, pt in readings:
                    x = _dot(v, pt)
                    ctx.check(lo - tol <= x <= hi + tol, "outside-local-hull",
                              "point at %r = %r (%s) projects to %r on direction %r, outside [%r, %r] of the %d active control points (%s)" % (
                                  us, pt, how, x, v, lo, hi, len(pts), name))
                x = _dot(v, got)
                touch = touch or abs(x - lo) <= 1e-6 * big * nv or abs(x - hi) <= 1e-6 * big * nv
        ctx.nt(touch, "on-a-hull-face")
    ctx.nt(build.varied_weights(d), "rational-varied")
    ctx.nt(any(k in ("knot", "end", "start") for k in kinds_all), "on-knot-or-end")
    ctx.label("kind:" + d["kind"])
    ctx.label("unclamped", d.get("unclamped", False))
    if case.get("moved"):
        # a second shape: a translated copy; each of the two keeps to its own control net
        vec = [[0.0, 0.0, 0.0, 0.0], [64.0, -32.0, 16.0, 8.0], [-0.5, 1024.0, 0.25, -256.0]][case["moved"]][:dim]
        if case["moved"] == 1:
            mv = operations.scale(obj, 2.0)          # another way to a second shape: a scaled copy
            P2x = [[c * 2.0 for c in p] for p in P]
            mbbx = mv.bbox
            for i in range(dim):
                ctx.check(mbbx[0][i] == min(p[i] for p in P2x) and mbbx[1][i] == max(p[i] for p in P2x), "bbox-not-control-net-extent",
                          "bbox of a scaled copy is %r but its control points span [%r, %r] on axis %d" % (mbbx, min(p[i] for p in P2x), max(p[i] for p in P2x), i))
            if not d.get("unclamped"):
                mv.delta = 0.5
                e0 = mv.evalpts[0]
                ctx.check(all(abs(a - b) <= 1e-12 * 2 * big for a, b in zip(e0, P2x[0])), "clamped-start", "a scaled copy starts at %r, its first control point is %r" % (e0, P2x[0]))
        mv = operations.translate(obj, vec)
        P2 = [[c + t for c, t in zip(p, vec)] for p in P]
        mbb = mv.bbox
        for i in range(dim):
            ctx.check(mbb[0][i] == min(p[i] for p in P2) and mbb[1][i] == max(p[i] for p in P2), "bbox-not-control-net-extent",
                      "bbox of a translated copy is %r but its control points span [%r, %r] on axis %d" % (mbb, min(p[i] for p in P2), max(p[i] for p in P2), i))
        mv.delta = 0.5
        mev = mv.evalpts
        for e in mev:
            ctx.check(all(mbb[0][i] - 1e-9 * (big + 1024) <= e[i] <= mbb[1][i] + 1e-9 * (big + 1024) for i in range(dim)), "evalpt-outside-bbox",
                      "sampled point %r of a translated copy lies outside its bounding box %r" % (e, mbb))
        ctx.label("translated-copy")
        if case["moved"] == 2:
            # ... and the shape itself is moved in place after its box and samples were looked at
            _ = obj.bbox
            obj.delta = 0.5
            _ = obj.evalpts
            operations.translate(obj, vec, inplace=True)
            P = P2
            ctx.label("translated-in-place-after-reads")
            bbm = obj.bbox
            for e in obj.evalpts:          # read straight away, before any density change
                ctx.check(all(bbm[0][i] - 1e-9 * (big + 1024) <= e[i] <= bbm[1][i] + 1e-9 * (big + 1024) for i in range(dim)), "evalpt-outside-bbox",
                          "after an in-place translation the sampled point %r lies outside the bounding box %r" % (e, bbm))
    # bounding box of the control net contains every sampled point
    bb = obj.bbox
    ctx.check(len(bb) == 2 and len(bb[0]) == dim and len(bb[1]) == dim, "bbox-shape", "bbox = %r" % (bb,))
    for i in range(dim):
        ctx.check(bb[0][i] == min(p[i] for p in P) and bb[1][i] == max(p[i] for p in P), "bbox-not-control-net-extent",
                  "bbox %r but control points span [%r, %r] on axis %d" % (bb, min(p[i] for p in P), max(p[i] for p in P), i))
    obj.delta = 1.0 / case["n"]
    ev = obj.evalpts
    ctx.check(len(ev) == case["n"] ** pdim, "evalpts-count", "evalpts has %d points for sample size %d" % (len(ev), case["n"]))
    for e in ev:
        ctx.check(all(bb[0][i] - 1e-9 * big <= e[i] <= bb[1][i] + 1e-9 * big for i in range(dim)), "evalpt-outside-bbox",
                  "sampled point %r lies outside the bounding box %r" % (e, bb))
    if pdim <= 2 and case["n"] >= 3:
        # sampled from the upper to the lower end of the domain: the same points in reverse order, inside the same box
        dom = [obj.domain] if pdim == 1 else list(obj.domain)
        if pdim == 1:
            obj.evaluate(start=dom[0][1], stop=dom[0][0])
        else:
            obj.evaluate(start_u=dom[0][1], stop_u=dom[0][0], start_v=dom[1][1], stop_v=dom[1][0])
        rev = [list(e) for e in obj.evalpts]
        ctx.label("sampled-in-descending-order")
        ctx.check(len(rev) == len(ev), "evalpts-count", "sampling from the upper to the lower end gives %d points, %d in ascending order" % (len(rev), len(ev)))
        for e in rev:
            ctx.check(all(bb[0][i] - 1e-9 * big <= e[i] <= bb[1][i] + 1e-9 * big for i in range(dim)), "evalpt-outside-bbox",
                      "sampled point %r (descending parameter range) lies outside the bounding box %r" % (e, bb))
        if not d.get("unclamped"):
            ctx.check(all(abs(a - b) <= 1e-12 * big for a, b in zip(rev[0], P[-1])) and all(abs(a - b) <= 1e-12 * big for a, b in zip(rev[-1], P[0])), "clamped-end",
                      "descending sampling starts at %r and ends at %r; last / first control points %r / %r" % (rev[0], rev[-1], P[-1], P[0]))
    if not d.get("unclamped"):
        ctx.check(all(abs(a - b) <= 1e-12 * big for a, b in zip(ev[0], P[0])), "clamped-start", "evalpts[0] = %r, first control point %r" % (ev[0], P[0]))
        ctx.check(all(abs(a - b) <= 1e-12 * big for a, b in zip(ev[-1], P[-1])), "clamped-end", "evalpts[-1] = %r, last control point %r" % (ev[-1], P[-1]))


@st.composite
def _length_cases(draw, tier):
    d = draw(gen.spline(kinds=("curve",), rational=False, max_p=5, max_extra=6, unclamped="maybe", affine_range="maybe", normalize="maybe"))
    sc = draw(st.sampled_from([0, 0, 0, -20, -26, 14]))          # exact power-of-two scaling: tiny and large geometry
    if sc:
        d["P"] = [[c * 2.0 ** sc for c in p] for p in d["P"]]
    return {"defn": d, "n": draw(st.integers(2, 40)), "scale_exp": sc}


def check_length(case, ctx):
    d = case["defn"]
    obj = build.make(d)
    R = build.exact_from(d, obj)
    obj.delta = 1.0 / case["n"]
    L = operations.length_curve(obj)
    P = d["P"]
    poly = sum(math.sqrt(sum((a - b) ** 2 for a, b in zip(p, q))) for p, q in zip(P[1:], P[:-1]))
    (a, b), = R.domain()
    pa, pb = R.point([a])[0], R.point([b])[0]
    chord = math.sqrt(float(sum((x - y) ** 2 for x, y in zip(pa, pb))))
    big = max(abs(c) for p in P for c in p)          # tolerances are relative to the size of the geometry
    ctx.label("scaled-geometry", bool(case.get("scale_exp")))
    ctx.nt(d.get("unclamped", False), "unclamped")
    ctx.nt(build.has_repeated_interior(d), "repeated-knot")
    ctx.nt(case["n"] >= 10, "fine-sampling")
    ctx.check(L >= chord - 1e-9 * big, "length-below-chord", "length_curve = %r < end-to-end chord %r (sample size %d)" % (L, chord, case["n"]))
    ctx.check(L <= poly + 1e-9 * big, "length-above-polygon", "length_curve = %r > control polygon length %r (sample size %d)" % (L, poly, case["n"]))


SUBCHECKS = [
    SubCheck("hull", _hull_cases, check_hull, quick=500, thorough=2500, shards_quick=2,
             rule="non-trivial = evaluated point within 1e-6 of a face of its local hull, or rational with varied weights, or a parameter on a knot / domain end"),
    SubCheck("length", _length_cases, check_length, quick=400, thorough=2000,
             rule="non-trivial = unclamped, or repeated knot, or sample size >= 10"),
]
