"""C02 - derivatives returned are the true derivatives of the shape (DESIGN.md section 5, C02)."""
from fractions import Fraction as F
import math

from hypothesis import strategies as st

from geomdl import evaluators, operations

from vp import gen, build, ref
from vp.core import SubCheck, Skip

RULE = ("Cases: generated curves/surfaces (rational or not, clamped/unclamped, affine ranges), parameters inside "
        "spans / on knots / at the ends, orders 0..degree+2, default and alternative evaluators; oracle = exact "
        "polynomial derivatives (Fractions), rational shapes by exact Taylor-series division, cross-validated on "
        "curves by the symbolic quotient rule.")
ASSUMPTIONS = ["only entries with k + l <= order are compared for surfaces (The NURBS Book contract)",
               "tolerance 1e-8 * exact magnitude scale of the derivative expression",
               "degenerate tangents/normals (|.| < 1e-6 exactly) are skipped and counted"]



def _nontrivial(ctx, d, kinds, order, alt):
    pmin = min(d["degree"])
    ctx.nt(order > pmin, "order>degree")
    ctx.nt(any(k in ("knot", "end", "start") for k in kinds), "on-knot-or-end")
    ctx.nt(build.varied_weights(d), "rational-varied")
    ctx.nt(build.has_repeated_interior(d), "repeated-knot")
    ctx.nt(alt, "alternative-evaluator")
    ctx.label("kind:" + d["kind"])
    ctx.label("unclamped", d.get("unclamped", False))
    ctx.label("affine", bool(d.get("affine")))
    ctx.label("rational" if d["rational"] else "nonrational")


@st.composite
def _ders_cases(draw, tier):
    big = tier == "thorough"
    d = draw(gen.spline(ranges=("far", "tiny"), kinds=("curve", "surface"), max_p=5 if big else 4, max_extra=6 if big else 4,
                        unclamped="maybe", affine_range="maybe", normalize="maybe", micro=True))
    pdim = len(d["degree"])
    if d["rational"] and pdim == 2 and max(d["degree"]) > 3 and not big:
        pass
    order = draw(st.integers(0, max(d["degree"]) + 2))
    alt = (not d["rational"]) and draw(st.booleans())
    span_func = draw(st.sampled_from(["linear", "binary"]))
    prm = draw(st.lists(gen.params(pdim), min_size=1, max_size=3))
    return {"defn": d, "order": order, "alt": alt, "params": prm, "span_func": span_func}


def check_ders(case, ctx):
    from geomdl import helpers
    d = case["defn"]
    order = case["order"]
    kw = {}
    if case["span_func"] == "binary" and not build.tiny_range(d):
        kw["find_span_func"] = helpers.find_span_binsearch
    obj = build.make(d, **kw)
    if case["alt"]:
        obj.evaluator = evaluators.CurveEvaluator2() if d["kind"] == "curve" else evaluators.SurfaceEvaluator2()
    kinds_all = []
    for rnd in (0, 1):
        if rnd == 1:
            # the same object (same evaluator object) after its control points were replaced: the answers follow the new net
            if len(d["P"]) % 2:
                break
            d = dict(d)
            d["P"] = [[c * 1.5 - 2.0 * (i + 1) for i, c in enumerate(q)] for q in d["P"]]
            obj.ctrlpts = [list(q) for q in d["P"]]
            ctx.label("queried-again-after-new-control-points")
        R = build.exact_from(d, obj)
        for descs in case["params"]:
            us, kinds = build.resolve_params(obj, descs)
            kinds_all += kinds
            D, M = R.derivatives(us, order)
            if d["kind"] == "curve":
                CK = obj.derivatives(us[0], order)
                ctx.check(len(CK) == order + 1, "ders-shape", "derivatives(order=%d) returned %d entries" % (order, len(CK)))
                for k in range(order + 1):
                    ctx.check(ref.vec_close(CK[k], D[(k,)], M[(k,)], 1e-8), "curve-derivative",
                              "CK[%d] at u=%r is %r, exact %r (degree %d, order %d, %s)" % (
                                  k, us[0], CK[k], ref.fl(D[(k,)]), d["degree"][0], order,
                                  "alt evaluator" if case["alt"] else "default evaluator"))
                    if not d["rational"] and k > d["degree"][0]:
                        ctx.check(all(c == 0.0 for c in CK[k]), "curve-derivative-above-degree",
                                  "CK[%d] of a degree-%d non-rational curve is %r, must be zero" % (k, d["degree"][0], CK[k]))
            else:
                SKL = obj.derivatives(us[0], us[1], order)
                ctx.check(len(SKL) >= order + 1 and all(len(r) >= order + 1 - i for i, r in enumerate(SKL[:order + 1])),
                          "ders-shape", "surface derivatives(order=%d) returned shape %r" % (order, [len(r) for r in SKL]))
                for k in range(order + 1):
                    for l in range(order + 1 - k):
                        ctx.check(ref.vec_close(SKL[k][l], D[(k, l)], M[(k, l)], 1e-8), "surface-derivative",
                                  "SKL[%d][%d] at %r is %r, exact %r (degrees %r, order %d, %s)" % (
                                      k, l, us, SKL[k][l], ref.fl(D[(k, l)]), d["degree"], order,
                                      "alt evaluator" if case["alt"] else "default evaluator"))
                        if not d["rational"] and (k > d["degree"][0] or l > d["degree"][1]):
                            ctx.check(all(c == 0.0 for c in SKL[k][l]), "surface-derivative-above-degree",
                                      "SKL[%d][%d] of a degree-%r non-rational surface is %r, must be zero" % (k, l, d["degree"], SKL[k][l]))
                ctx.nt(order >= 2 and min(d["degree"]) >= 1, "mixed-partials")
    _nontrivial(ctx, d, kinds_all, order, case["alt"])


# ------------------------------------------------------------------------------------------------ self-check of the oracle
@st.composite
def _oracle_cases(draw, tier):
    d = draw(gen.spline(kinds=("curve",), rational=True, max_p=4, max_extra=4, unclamped="maybe"))
    order = draw(st.integers(0, d["degree"][0] + 2))
    prm = draw(gen.params(1))
    return {"defn": d, "order": order, "params": prm}


def check_oracle(case, ctx):
    """The two independent exact routes for rational derivatives (series division vs symbolic quotient rule)
    agree exactly; guards the trusted base, not the library."""
    d = case["defn"]
    obj = build.make(d)
    R = build.exact_from(d, obj)
    us, kinds = build.resolve_params(obj, case["params"])
    D, _M = R.derivatives(us, case["order"])
    Q = R.curve_ders_quotient_rule(us[0], case["order"])
    ctx.nt(build.varied_weights(d), "varied-weights")
    for k in range(case["order"] + 1):
        ctx.check(list(D[(k,)]) == list(Q[k]), "oracle-self-consistency", "series division and quotient rule disagree at order %d" % k)


# ------------------------------------------------------------------------------------------------ hodographs
@st.composite
def _hodo_cases(draw, tier):
    big = tier == "thorough"
    d = draw(gen.spline(kinds=("curve", "surface"), rational=False, max_p=5 if big else 4, max_extra=5 if big else 3,
                        min_p=2, unclamped="maybe", affine_range="maybe", normalize="maybe"))
    pdim = len(d["degree"])
    prm = draw(st.lists(gen.params(pdim), min_size=2, max_size=5))
    return {"defn": d, "params": prm}


def check_hodograph(case, ctx):
    d = case["defn"]
    obj = build.make(d)
    # class of the recorded finding: the constructors re-normalise knotvector[1:-1]
    renorm = bool(d.get("unclamped")) or bool(d.get("affine")) and not d["normalize"]
    if d.get("affine") and d["normalize"]:
        renorm = renorm or False
    ctx.label("class:renormalised-hodograph", renorm)
    before = build.snapshot(obj)
    R = build.exact_from(d, obj)
    kinds_all = []
    if d["kind"] == "curve":
        H = operations.derivative_curve(obj)
        ctx.check(H is not obj, "hodograph-new-object", "derivative_curve returned its input")
        ctx.check(H.degree == obj.degree - 1, "hodograph-degree", "hodograph degree %r for degree %r" % (H.degree, obj.degree))
        for descs in case["params"]:
            us, kinds = build.resolve_params(obj, descs)
            kinds_all += kinds
            D, M = R.derivatives(us, 1)
            # at interior knots of multiplicity p the hodograph is discontinuous: both use the right-hand value
            got = H.evaluate_single(us[0])
            ctx.check(ref.vec_close(got, D[(1,)], M[(1,)], 1e-8), "hodograph-curve",
                      "derivative_curve(C)(%r) = %r but C'(%r) = %r" % (us[0], got, us[0], ref.fl(D[(1,)])))
    else:
        Hu, Hv, Huv = operations.derivative_surface(obj)
        for descs in case["params"]:
            us, kinds = build.resolve_params(obj, descs)
            kinds_all += kinds
            D, M = R.derivatives(us, 2)
            for Hs, key, name in ((Hu, (1, 0), "S_u"), (Hv, (0, 1), "S_v"), (Huv, (1, 1), "S_uv")):
                got = Hs.evaluate_single(tuple(us))
                ctx.check(ref.vec_close(got, D[key], M[key], 1e-8), "hodograph-surface",
                          "derivative_surface %s(%r) = %r, exact %r" % (name, us, got, ref.fl(D[key])))
    ctx.check(build.snapshot(obj) == before, "hodograph-input-modified", "derivative constructor changed its input")
    _nontrivial(ctx, d, kinds_all, 1, False)
    ctx.nt(True, "hodograph")


# ------------------------------------------------------------------------------------------------ tangent / normal
@st.composite
def _tn_cases(draw, tier):
    big = tier == "thorough"
    d = draw(gen.spline(kinds=("curve", "surface"), max_p=4, max_extra=5 if big else 3, dims=(3,),
                        unclamped="maybe", affine_range="maybe", normalize="maybe"))
    pdim = len(d["degree"])
    prm = draw(st.lists(gen.params(pdim), min_size=1, max_size=4))
    if pdim == 2 and not d.get("unclamped") and draw(st.integers(0, 2)) == 0:
        # a pole: the first row of control points (u = domain start) collapsed into one point, so S_v vanishes along that edge
        nv_ = d["size"][1]
        d["P"] = [list(d["P"][0]) if i < nv_ else q for i, q in enumerate(d["P"])]
        d["pole"] = True
        prm = [[["start"], prm[0][1]]] + prm[:2]
        return {"defn": d, "params": prm, "normalize": True, "as_list": draw(st.booleans()), "scale_exp": 0}
    return {"defn": d, "params": prm, "normalize": draw(st.booleans()), "as_list": draw(st.booleans()),
            "scale_exp": draw(st.sampled_from([0, 0, 0, -24, -40, -40, 20]))}


def _norm2(v):
    return sum(x * x for x in v)


def _parallel_same_sense(got, refv, unit, tag, what, ctx):
    """got is parallel and equally oriented to the exact vector refv; unit length when normalised."""
    n2 = _norm2(refv)
    nr = math.sqrt(float(n2))
    g = [float(x) for x in got]
    if unit:
        ctx.check(abs(math.sqrt(sum(x * x for x in g)) - 1.0) <= 1e-12, tag + "-unit", "%s is not a unit vector: %r" % (what, got))
        want = [float(x) / nr for x in refv]
        ctx.check(all(abs(a - b) <= 1e-8 for a, b in zip(g, want)), tag + "-direction",
                  "%s = %r, exact unit direction %r" % (what, got, want))
    else:
        scale = max(F(1), max(abs(x) for x in refv))
        ctx.check(all(ref.close(a, b, scale, 1e-8) for a, b in zip(g, refv)), tag + "-vector",
                  "%s = %r, exact %r" % (what, got, ref.fl(refv)))


def check_tangent_normal(case, ctx):
    d = case["defn"]
    e_ = case.get("scale_exp", 0)
    if e_:
        # a model in very small (or large) units: all coordinates scaled by an exact power of two; directions do not change
        d = dict(d)
        d["P"] = [[c * 2.0 ** e_ for c in q] for q in d["P"]]
        ctx.label("tiny-or-large-coordinates")
    thr = F(1, 10 ** 12) * F(4) ** e_          # 'degenerate' is relative to the units of the model
    obj = build.make(d)
    R = build.exact_from(d, obj)
    nrm = case["normalize"]
    plist, kinds_all, exact = [], [], []
    for descs in case["params"]:
        us, kinds = build.resolve_params(obj, descs)
        D, M = R.derivatives(us, 1)
        plist.append(us)
        kinds_all += kinds
        exact.append((D, M))
    _nontrivial(ctx, d, kinds_all, 1, False)
    ctx.label("normalize", nrm)
    ctx.label("list-form", case["as_list"])
    skipped = 0
    if d["kind"] == "curve":
        if nrm and case["as_list"] and any(_norm2(D[(1,)]) < thr for D, _ in exact):
            # vector_normalize raises on a zero vector: no unit tangent exists there (outside the property's domain)
            raise Skip("degenerate tangent")
        if case["as_list"]:
            res = operations.tangent(obj, [us[0] for us in plist], normalize=nrm)
            ctx.check(len(res) == len(plist), "tangent-list-size", "tangent list form returned %d results" % len(res))
        else:
            res = []
            for us in plist:
                D, M = exact[len(res)]
                if nrm and _norm2(D[(1,)]) < thr:
                    res.append(None)
                    continue
                res.append(operations.tangent(obj, us[0], normalize=nrm))
        for r, us, (D, M) in zip(res, plist, exact):
            if r is None or (nrm and _norm2(D[(1,)]) < thr):
                skipped += 1
                continue
            pt, vec = r
            ctx.check(ref.vec_close(pt, D[(0,)], M[(0,)], 1e-8), "tangent-point", "tangent origin %r, curve point %r" % (pt, ref.fl(D[(0,)])))
            _parallel_same_sense(vec, D[(1,)], nrm, "tangent", "curve tangent at %r" % us[0], ctx)
    else:
        def degenerate(D):
            su, sv = D[(1, 0)], D[(0, 1)]
            cr = _cross(su, sv)
            return _norm2(su) < thr or _norm2(sv) < thr or _norm2(cr) < thr * F(4) ** e_
        if nrm and any(degenerate(D) for D, _ in exact):
            # no unit tangent / normal exists where a first partial derivative (or their cross product) vanishes, e.g. at a pole:
            # the library may refuse; if it answers, what it calls normalised vectors are unit vectors
            ctx.label("degenerate-tangent-or-normal")
            for us, (D, M) in zip(plist, exact):
                if not degenerate(D):
                    continue
                for fn_, nm_ in ((operations.tangent, "tangent"), (operations.normal, "normal")):
                    try:
                        ans = fn_(obj, tuple(us), normalize=True)
                    except Exception:
                        continue
                    for vec_ in ans[1:]:
                        ln_ = math.sqrt(sum(float(x) ** 2 for x in vec_))
                        ctx.check(abs(ln_ - 1.0) <= 1e-9, nm_ + "-not-unit",
                                  "operations.%s(%r, normalize=True) at a point where a partial derivative vanishes returned a vector of length %r: %r" % (nm_, us, ln_, vec_))
            keep_ = [i for i, (D, M) in enumerate(exact) if not degenerate(D)]
            plist, exact = [plist[i] for i in keep_], [exact[i] for i in keep_]
            if not plist:
                raise Skip("degenerate tangent or normal")
        if case["as_list"]:
            tres = operations.tangent(obj, [tuple(us) for us in plist], normalize=nrm)
            nres = operations.normal(obj, [tuple(us) for us in plist], normalize=nrm)
        else:
            tres = [operations.tangent(obj, tuple(us), normalize=nrm) for us in plist]
            nres = [operations.normal(obj, tuple(us), normalize=nrm) for us in plist]
        ctx.check(len(tres) == len(plist) and len(nres) == len(plist), "tangent-list-size", "list form returned wrong count")
        for t, nn, us, (D, M) in zip(tres, nres, plist, exact):
            pt, tu, tv = t
            ctx.check(ref.vec_close(pt, D[(0, 0)], M[(0, 0)], 1e-8), "tangent-point", "tangent origin %r, surface point %r" % (pt, ref.fl(D[(0, 0)])))
            _parallel_same_sense(tu, D[(1, 0)], nrm, "tangent-u", "surface u-tangent at %r" % (us,), ctx)
            _parallel_same_sense(tv, D[(0, 1)], nrm, "tangent-v", "surface v-tangent at %r" % (us,), ctx)
            npt, nv = nn
            ctx.check(ref.vec_close(npt, D[(0, 0)], M[(0, 0)], 1e-8), "normal-point", "normal origin %r, surface point %r" % (npt, ref.fl(D[(0, 0)])))
            cr = _cross(D[(1, 0)], D[(0, 1)])
            _parallel_same_sense(nv, cr, nrm, "normal", "surface normal at %r" % (us,), ctx)
            # orthogonal to both exact tangents (relative to the vector lengths)
            for tvec, nm in ((D[(1, 0)], "u"), (D[(0, 1)], "v")):
                dot = sum(float(a) * float(b) for a, b in zip(nv, tvec))
                lim = 1e-8 * max(1.0, math.sqrt(float(_norm2(tvec)))) * max(1.0, math.sqrt(sum(float(x) ** 2 for x in nv)))
                ctx.check(abs(dot) <= lim, "normal-orthogonal", "normal . S_%s = %r at %r" % (nm, dot, us))
    if skipped:
        ctx.label("skipped-degenerate-tangent")


def _cross(a, b):
    return [a[1] * b[2] - a[2] * b[1], a[2] * b[0] - a[0] * b[2], a[0] * b[1] - a[1] * b[0]]


SUBCHECKS = [
    SubCheck("ders", _ders_cases, check_ders, quick=500, thorough=2500, shards_quick=2,
             rule="non-trivial = order > degree, or on-knot/end parameter, or rational with varied weights, or repeated knot, "
                  "or alternative evaluator, or mixed partials"),
    SubCheck("oracle", _oracle_cases, check_oracle, quick=150, thorough=600, shards_thorough=4,
             rule="rational curves with varied weights (self-consistency of the two exact derivative oracles)"),
    SubCheck("hodograph", _hodo_cases, check_hodograph, quick=300, thorough=1500,
             rule="every hodograph case (degree >= 2) counts; classes labelled"),
    SubCheck("tangent_normal", _tn_cases, check_tangent_normal, quick=300, thorough=1500,
             rule="as ders"),
]
