"""C03 - basis functions and knot-span search satisfy their defining identities (DESIGN.md section 5, C03)."""
from fractions import Fraction as F

from hypothesis import strategies as st

from geomdl import helpers, knotvector, BSpline, utilities

from vp import gen, build, ref
from vp.core import SubCheck

RULE = ("Cases: degree 1..7, generated knot vectors of every multiplicity pattern (clamped and unclamped, affine "
        "ranges), parameters inside spans / on knots / at both domain ends; oracle = reference span definition and "
        "Cox-de Boor recursion run on polynomials in exact Fractions.")
ASSUMPTIONS = ["basis_function_ders_one (A2.5) is compared on the half-open domain [a, b) only",
               "helper-level derivative order <= degree (the input domain of A2.3; all library callers respect it)"]


@st.composite
def _kv_cases(draw, tier, with_order=False):
    p = draw(st.integers(1, 7))
    n = p + 1 + draw(st.integers(0, 10 if tier == "thorough" else 6))
    uncl = draw(st.booleans())
    kv = draw(gen.knot_vector(p, n, unclamped=uncl, micro=True))
    aff = None
    if draw(st.booleans()):
        aff = draw(gen.affine(("far",)))
        kv = gen.affine_kv(kv, aff[0], aff[1])
    prm = draw(st.lists(gen.param_desc(), min_size=1, max_size=5))
    c = {"p": p, "n": n, "kv": kv, "unclamped": uncl, "affine": aff, "params": prm}
    if with_order:
        c["order"] = draw(st.integers(0, p))
    return c


def _classify(ctx, c, kinds, order=0):
    kv, p, n = c["kv"], c["p"], c["n"]
    inner = kv[p + 1:n]
    ctx.nt(len(inner) != len(set(inner)), "multiplicity>=2")
    ctx.nt(c["unclamped"], "unclamped")
    ctx.nt(any(k in ("knot", "start", "end") for k in kinds), "on-knot-or-end")
    ctx.nt(order >= 2, "order>=2")
    ctx.label("affine", bool(c["affine"]))
    ctx.label("degree>=4", p >= 4)
    for k in set(kinds):
        ctx.label("param:" + k)


def check_span(case, ctx):
    p, n, kv = case["p"], case["n"], case["kv"]
    U = [F(k) for k in kv]
    us, kinds = [], []
    for d in case["params"]:
        u, k = build.resolve_param(p, kv, n, d)
        us.append(u)
        kinds.append(k)
    _classify(ctx, case, kinds)
    expect = []
    for u in us:
        j = ref.span(p, U, n, F(u))
        expect.append(j)
        lin = helpers.find_span_linear(p, kv, n, u)
        bins = helpers.find_span_binsearch(p, kv, n, u)
        ctx.check(lin == j, "find_span_linear", "find_span_linear(p=%d, u=%r) = %r, definition gives %d (kv=%r)" % (p, u, lin, j, kv))
        ctx.check(bins == j, "find_span_binsearch", "find_span_binsearch(p=%d, u=%r) = %r, definition gives %d (kv=%r)" % (p, u, bins, j, kv))
        m = helpers.find_multiplicity(u, kv)
        # documented default tolerance of the equality test: 10e-8
        ctx.check(m == sum(1 for k in kv if abs(F(k) - F(u)) <= F(1, 10 ** 7)), "find_multiplicity", "find_multiplicity(%r) = %r (kv=%r)" % (u, m, kv))
    for func in (helpers.find_span_linear, helpers.find_span_binsearch):
        got = helpers.find_spans(p, kv, n, us, func)
        ctx.check(list(got) == expect, "find_spans", "find_spans(%s) = %r, expected %r" % (func.__name__, got, expect))
    got = helpers.find_spans(p, kv, n, us)
    ctx.check(list(got) == expect, "find_spans", "find_spans(default) = %r, expected %r" % (got, expect))


def check_basis(case, ctx):
    p, n, kv = case["p"], case["n"], case["kv"]
    U = [F(k) for k in kv]
    us, kinds = [], []
    for d in case["params"]:
        u, k = build.resolve_param(p, kv, n, d)
        us.append(u)
        kinds.append(k)
    _classify(ctx, case, kinds)
    spans = []
    for u in us:
        fu = F(u)
        j = ref.span(p, U, n, fu)
        spans.append(j)
        exact = [ref.peval(q, fu) for q in ref.basis_polys(p, U, j)]
        N = helpers.basis_function(p, kv, j, u)
        ctx.check(len(N) == p + 1, "basis-shape", "basis_function returned %d values for degree %d" % (len(N), p))
        ctx.check(all(x >= -1e-15 for x in N), "basis-nonneg", "negative basis function value: %r at u=%r" % (N, u))
        ctx.check(abs(sum(N) - 1.0) <= 1e-12, "partition-of-unity", "basis functions sum to %r at u=%r kv=%r" % (sum(N), u, kv))
        for i, (x, r) in enumerate(zip(N, exact)):
            ctx.check(ref.close(x, r, F(1), 1e-12), "basis-vs-coxdeboor",
                      "basis_function[%d] = %r, Cox-de Boor gives %r (p=%d, span=%d, u=%r, kv=%r)" % (i, x, float(r), p, j, u, kv))
        # single-function variant: active indices equal, inactive are zero
        for i in range(n):
            one = helpers.basis_function_one(p, kv, i, u)
            r = exact[i - (j - p)] if j - p <= i <= j else F(0)
            ctx.check(ref.close(one, r, F(1), 1e-12), "basis_function_one",
                      "basis_function_one(i=%d) = %r, expected %r (p=%d, u=%r, kv=%r)" % (i, one, float(r), p, u, kv))
        # all-degrees variant
        allN = helpers.basis_function_all(p, kv, j, u)
        for d in range(p + 1):
            ex_d = [ref.peval(q, fu) for q in ref.basis_polys(d, U, j)]
            col = [allN[r_][d] for r_ in range(d + 1)]
            for i, (x, r) in enumerate(zip(col, ex_d)):
                ctx.check(x is not None and ref.close(x, r, F(1), 1e-12), "basis_function_all",
                          "basis_function_all[%d][%d] = %r, degree-%d function gives %r (u=%r, kv=%r)" % (i, d, x, d, float(r), u, kv))
    many = helpers.basis_functions(p, kv, spans, us)
    ctx.check(len(many) == len(us), "basis_functions-shape", "basis_functions returned %d rows" % len(many))
    for row, j, u in zip(many, spans, us):
        ctx.check(list(row) == list(helpers.basis_function(p, kv, j, u)), "basis_functions", "list wrapper differs from single call")
    # results belong to the caller: what it does with them (here: weighting the rows in place) cannot change a later answer
    keep = [list(r) for r in many]
    keep1 = list(helpers.basis_function(p, kv, spans[0], us[0]))
    keepA = [list(r) for r in helpers.basis_function_all(p, kv, spans[0], us[0])]
    for r in many:
        for i in range(len(r)):
            r[i] = r[i] * 3.0 + 1.0
    first = helpers.basis_function(p, kv, spans[0], us[0])
    for i in range(len(first)):
        first[i] = -7.0
    firstA = helpers.basis_function_all(p, kv, spans[0], us[0])
    for r in firstA:
        for i in range(len(r)):
            r[i] = 5.0
    ctx.check([list(r) for r in helpers.basis_functions(p, kv, spans, us)] == keep, "basis-depends-on-earlier-result",
              "basis_functions called again after the caller edited the first result returns other values")
    ctx.check(list(helpers.basis_function(p, kv, spans[0], us[0])) == keep1 and [list(r) for r in helpers.basis_function_all(p, kv, spans[0], us[0])] == keepA,
              "basis-depends-on-earlier-result", "basis_function / basis_function_all called again after the caller edited the first result return other values")


def check_ders(case, ctx):
    p, n, kv, order = case["p"], case["n"], case["kv"], case["order"]
    U = [F(k) for k in kv]
    us, kinds = [], []
    for d in case["params"]:
        u, k = build.resolve_param(p, kv, n, d)
        us.append(u)
        kinds.append(k)
    _classify(ctx, case, kinds, order)
    b = kv[n]
    spans = []
    for u in us:
        fu = F(u)
        j = ref.span(p, U, n, fu)
        spans.append(j)
        exact = ref.basis_ders(p, U, j, fu, order)
        D = helpers.basis_function_ders(p, kv, j, u, order)
        ctx.check(len(D) >= order + 1 and all(len(r) == p + 1 for r in D[:order + 1]), "ders-shape",
                  "basis_function_ders returned shape %r for order %d degree %d" % ([len(r) for r in D], order, p))
        for k in range(order + 1):
            scale = max([F(1)] + [abs(x) for x in exact[k]])
            for i in range(p + 1):
                ctx.check(ref.close(D[k][i], exact[k][i], scale, 1e-9), "ders-vs-polynomial",
                          "ders[%d][%d] = %r, exact %r (p=%d, span=%d, u=%r, kv=%r)" % (k, i, D[k][i], float(exact[k][i]), p, j, u, kv))
            if k >= 1:
                tot = sum(abs(x) for x in D[k])
                ctx.check(abs(sum(D[k])) <= 1e-9 * max(1.0, tot), "ders-sum-zero",
                          "sum of %d-th derivatives = %r (p=%d, u=%r, kv=%r)" % (k, sum(D[k]), p, u, kv))
        # single-function derivative variant (A2.5), half-open domain only
        if u < b:
            for i in range(n):
                one = helpers.basis_function_ders_one(p, kv, i, u, order)
                ctx.check(len(one) >= order + 1, "ders_one-shape", "basis_function_ders_one returned %d values" % len(one))
                for k in range(order + 1):
                    r = exact[k][i - (j - p)] if j - p <= i <= j else F(0)
                    scale = max([F(1)] + [abs(x) for x in exact[k]])
                    ctx.check(ref.close(one[k], r, scale, 1e-9), "ders_one",
                              "basis_function_ders_one(i=%d)[%d] = %r, exact %r (p=%d, u=%r, kv=%r)" % (i, k, one[k], float(r), p, u, kv))
    many = helpers.basis_functions_ders(p, kv, spans, us, order)
    ctx.check(len(many) == len(us), "basis_functions_ders-shape", "wrapper returned %d rows" % len(many))
    for row, j, u in zip(many, spans, us):
        single = helpers.basis_function_ders(p, kv, j, u, order)
        ctx.check([list(r) for r in row] == [list(r) for r in single], "basis_functions_ders", "list wrapper differs from single call")
    keep = [[list(r) for r in row] for row in many]
    for row in many:
        for r in row:
            for i in range(len(r)):
                r[i] = r[i] * 0.5 - 2.0
    one_ = helpers.basis_function_ders(p, kv, spans[0], us[0], order)
    for r in one_:
        for i in range(len(r)):
            r[i] = 9.0
    ctx.check([[list(r) for r in row] for row in helpers.basis_functions_ders(p, kv, spans, us, order)] == keep, "basis-depends-on-earlier-result",
              "basis_functions_ders called again after the caller edited the first result returns other values")


# ------------------------------------------------------------------------------------------------ knot vectors
def _enum_generate(tier):
    cases = []
    for p in range(1, 8):
        for extra in range(0, 420 if tier == "thorough" else 130):
            for clamped in (True, False):
                cases.append({"p": p, "n": p + 1 + extra, "clamped": clamped})
    if tier != "thorough":
        # knot vectors longer than 256 entries belong to the domain as well (a few of them in the quick tier, all in the thorough one)
        for p, n in ((1, 255), (2, 254), (3, 253), (3, 260), (5, 251), (7, 300)):
            for clamped in (True, False):
                cases.append({"p": p, "n": n, "clamped": clamped})
    return cases


def check_generate(case, ctx):
    p, n, clamped = case["p"], case["n"], case["clamped"]
    kv = knotvector.generate(p, n, clamped=clamped)
    ctx.nt(not clamped or n > p + 1, "has-interior-or-unclamped")
    ctx.check(len(kv) == n + p + 1, "generate-length", "generate(%d, %d, clamped=%r) has %d knots" % (p, n, clamped, len(kv)))
    ctx.check(knotvector.check(p, kv, n) is True, "generate-check", "generated vector fails knotvector.check")
    ctx.check(all(a <= b for a, b in zip(kv, kv[1:])), "generate-sorted", "generated vector decreases: %r" % kv)
    ctx.check(kv[0] == 0.0 and kv[-1] == 1.0, "generate-range", "generated vector range %r..%r" % (kv[0], kv[-1]))
    first = sum(1 for k in kv if k == kv[0])
    last = sum(1 for k in kv if k == kv[-1])
    want = p + 1 if clamped else 1
    ctx.check(first == want and last == want, "generate-end-multiplicity",
              "generate(%d, %d, clamped=%r): end multiplicities %d/%d, documented %d" % (p, n, clamped, first, last, want))
    inner = kv[first:len(kv) - last]
    ctx.check(all(a < b for a, b in zip(inner, inner[1:])) and all(0.0 < k < 1.0 for k in inner), "generate-interior",
              "interior knots not strictly increasing inside (0,1): %r" % inner)
    # equally spaced interior (documented: 'equally spaced knot vector')
    full = [kv[0]] + inner + [kv[-1]]
    steps = [b - a for a, b in zip(full, full[1:])]
    ctx.check(max(steps) - min(steps) <= 1e-12, "generate-equal-spacing", "interior knots are not equally spaced: %r" % kv)
    # every call generates the vector: what the caller did with an earlier result (scaled it, inserted a knot) does not matter
    keep = list(kv)
    kv[len(kv) // 2] = kv[len(kv) // 2] * 0.5 + 3.0
    kv.append(9.0)
    again = knotvector.generate(p, n, clamped=clamped)
    ctx.check(list(again) == keep, "generate-depends-on-earlier-result",
              "generate(%d, %d, clamped=%r) called again after the caller edited the first result returns %r, first time %r" % (p, n, clamped, again, keep))
    kv = keep
    if clamped:
        # the usual way to call it: positional arguments only (clamped is the default); again every call makes its own vector
        pos = knotvector.generate(p, n)
        ctx.check(list(pos) == keep, "generate-positional", "generate(%d, %d) returns %r, generate(%d, %d, clamped=True) %r" % (p, n, pos, p, n, keep))
        pos.insert(len(pos) // 2, pos[len(pos) // 2])
        pos[0] = -1.0
        pos2 = knotvector.generate(p, n)
        ctx.check(list(pos2) == keep and pos2 is not pos, "generate-depends-on-earlier-result",
                  "generate(%d, %d) called again after the caller edited the first result returns %r, first time %r" % (p, n, pos2, keep))
    # the documented names in geomdl.utilities give the same vector, keyword included
    via = utilities.generate_knot_vector(p, n, clamped=clamped)
    ctx.check(list(via) == keep, "generate-utilities-name",
              "utilities.generate_knot_vector(%d, %d, clamped=%r) returns %r, knotvector.generate %r" % (p, n, clamped, via, keep))
    ctx.check(utilities.check_knot_vector(p, tuple(kv), n) is True, "generate-check", "utilities.check_knot_vector rejects the generated vector given as a tuple")
    # usable by a curve
    c = BSpline.Curve()
    c.degree = p
    c.ctrlpts = [[float(i), float(i * i)] for i in range(n)]
    c.knotvector = kv
    ctx.check(list(c.knotvector) == list(knotvector.normalize(kv)), "generate-accepted", "curve stored a different vector")


@st.composite
def _norm_cases(draw, tier):
    c = draw(_kv_cases(tier))
    c["bad"] = draw(st.sampled_from(["short", "long", "decreasing", "decreasing", "reversed", "none", "all-equal"]))
    c["pos"] = draw(st.integers(0, 63))
    c["kind"] = draw(st.sampled_from(["curve", "surface_u", "surface_v", "volume_w"]))
    return c


def check_normalize_reject(case, ctx):
    p, n, kv = case["p"], case["n"], list(case["kv"])
    _classify(ctx, case, [])
    ctx.nt(case["bad"] != "none", "rejection")
    out = knotvector.normalize(kv)
    k0, k1 = F(kv[0]), F(kv[-1])
    ctx.check(len(out) == len(kv), "normalize-length", "normalize changed the length")
    ctx.check(out[0] == 0.0 and out[-1] == 1.0, "normalize-ends", "normalize gives ends %r, %r" % (out[0], out[-1]))
    for a, b, x, y in zip(kv, kv[1:], out, out[1:]):
        ctx.check((x <= y) and ((a < b) == (x < y)), "normalize-order", "normalize does not preserve order: %r -> %r" % (kv, out))
    for k, x in zip(kv, out):
        r = (F(k) - k0) / (k1 - k0)
        ctx.check(abs(F(x) - r) <= F(1, 10 ** 15), "normalize-affine", "normalize(%r) = %r, affine map gives %r" % (k, x, float(r)))
    ctx.check(knotvector.check(p, kv, n) is True, "check-valid", "check rejects a valid vector %r (p=%d, n=%d)" % (kv, p, n))
    ctx.check(knotvector.check(p, out, n) is True, "check-valid-normalized", "check rejects the normalised vector")
    # documented input type: list or tuple; documented second names in geomdl.utilities
    ctx.check(knotvector.check(p, tuple(kv), n) is True, "check-valid", "check rejects a valid vector given as a tuple %r (p=%d, n=%d)" % (kv, p, n))
    ctx.check(utilities.check_knot_vector(p, list(kv), n) is True, "check-valid", "utilities.check_knot_vector rejects a valid vector")
    ctx.check(list(knotvector.normalize(tuple(kv))) == list(out), "normalize-tuple", "normalize(tuple) differs from normalize(list)")
    ctx.check(list(utilities.normalize_knot_vector(list(kv))) == list(out), "normalize-tuple", "utilities.normalize_knot_vector differs from knotvector.normalize")
    bad = case["bad"]
    if bad == "none":
        return
    if bad == "all-equal":
        bkv = [kv[0]] * len(kv)          # not claimed to be rejected; only "if it is refused, it is not stored" is asserted below
    elif bad == "short":
        bkv = kv[:-1]
    elif bad == "long":
        bkv = kv + [kv[-1]]
    elif bad == "reversed":
        bkv = kv[::-1]          # decreasing as a whole
    else:
        # introduce one strictly decreasing adjacent pair
        distinct = [i for i in range(len(kv) - 1) if kv[i] < kv[i + 1]]
        i = distinct[case["pos"] % len(distinct)]
        bkv = list(kv)
        bkv[i], bkv[i + 1] = bkv[i + 1], bkv[i]
    if bad != "all-equal":
        ctx.check(knotvector.check(p, bkv, n) is False, "check-rejects", "check accepts invalid vector (%s): %r p=%d n=%d" % (bad, bkv, p, n))
    # object setters reject it too - on a fresh object and on one that already holds a valid vector, which it then keeps
    kind = case["kind"]
    for holds_valid in (False, True):
        if kind == "curve":
            o = BSpline.Curve()
            o.degree = p
            o.ctrlpts = [[float(i), 0.0] for i in range(n)]
            attr, mid = "knotvector", None
        elif kind in ("surface_u", "surface_v"):
            o = BSpline.Surface()
            o.degree_u = p if kind == "surface_u" else 1
            o.degree_v = p if kind == "surface_v" else 1
            nu, nv = (n, 2) if kind == "surface_u" else (2, n)
            o.set_ctrlpts([[float(i), float(j), 0.0] for i in range(nu) for j in range(nv)], nu, nv)
            attr = "knotvector_u" if kind == "surface_u" else "knotvector_v"
            setattr(o, "knotvector_v" if kind == "surface_u" else "knotvector_u", [0.0, 0.0, 1.0, 1.0])
        else:
            o = BSpline.Volume()
            o.degree_u, o.degree_v, o.degree_w = 1, 1, p
            o.set_ctrlpts([[float(i), float(j), float(k)] for k in range(n) for i in range(2) for j in range(2)], 2, 2, n)
            attr = "knotvector_w"
            o.knotvector_u = [0.0, 0.0, 1.0, 1.0]
            o.knotvector_v = [0.0, 0.0, 1.0, 1.0]
        before = None
        if holds_valid:
            setattr(o, attr, tuple(kv) if case["pos"] % 2 else list(kv))
            stored = list(getattr(o, attr))
            prm = {"curve": 0.375, "surface_u": (0.375, 0.5), "surface_v": (0.5, 0.375), "volume_w": (0.5, 0.5, 0.375)}[kind]
            before = (stored, list(o.evaluate_single(prm)))
        raised = False
        try:
            setattr(o, attr, list(bkv))
        except ValueError:
            raised = True
        except Exception:
            raised = bad == "all-equal"          # whatever refuses a vector without any non-empty span
            if not raised:
                raise
        if bad != "all-equal":
            ctx.check(raised, "setter-rejects", "%s knot vector setter accepted an invalid vector (%s): %r" % (kind, bad, bkv))
        if raised and before is not None:
            now = list(getattr(o, attr))
            ctx.check(now == before[0], "rejected-vector-stored",
                      "%s: the refused vector (%s) %r replaced the valid one: stored %r, before %r" % (attr, bad, bkv, now, before[0]))
            pt = list(o.evaluate_single(prm))
            ctx.check(pt == before[1], "rejected-vector-stored", "%s: after a refused assignment (%s) the shape evaluates to %r, before %r" % (attr, bad, pt, before[1]))


SUBCHECKS = [
    SubCheck("span", lambda tier: _kv_cases(tier), check_span, quick=1200, thorough=6000,
             rule="non-trivial = interior multiplicity >= 2, or unclamped, or a parameter on a knot / domain end"),
    SubCheck("basis", lambda tier: _kv_cases(tier), check_basis, quick=500, thorough=2500,
             rule="as span"),
    SubCheck("ders", lambda tier: _kv_cases(tier, with_order=True), check_ders, quick=400, thorough=2000,
             rule="as span, or derivative order >= 2"),
    SubCheck("generate", None, check_generate, enumerate_cases=_enum_generate,
             rule="exhaustive over degree 1..7 x count degree+1..degree+130 (thorough: +420) x clamped/unclamped; non-trivial = has interior knots or unclamped"),
    SubCheck("normalize_reject", lambda tier: _norm_cases(tier), check_normalize_reject, quick=600, thorough=3000,
             rule="non-trivial = as span, or an invalid vector (wrong length / one decreasing pair) offered to check and to an object setter"),
]

# coverage-guided tier (thorough only): (sub-check, libFuzzer runs per process, processes)
FUZZ = [("span", 40000, 2), ("basis", 20000, 2), ("ders", 20000, 2)]
