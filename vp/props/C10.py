"""C10 - translation, rotation and scaling act on the shape as on its points (DESIGN.md section 5, C10)."""
import math
from fractions import Fraction as F

from hypothesis import strategies as st

from geomdl import operations, multi

from vp import gen, build, ref, shape
from vp.core import SubCheck

RULE = ("Cases: generated curves/surfaces/volumes and containers of 1..3 of them (rational or not, clamped or unclamped), "
        "translation vectors k/8, angles (multiples of 15 degrees and dyadic values in [-720, 720]) about axes 0/1/2, scale "
        "factors k/8 (negative too), inplace True/False; oracle = the map applied to exact reference points of the "
        "ORIGINAL on a lattice; rotation about y accepted in either handedness (the documentation fixes none).")
ASSUMPTIONS = ["tolerance 1e-9 * (1 + |point| + |pivot|)", "rotation sense about the y axis: either handedness is accepted"]


@st.composite
def _op(draw, dim):
    op = draw(st.sampled_from(["translate", "rotate", "rotate", "scale", "read", "scale_roundtrip", "rejected"]))
    c = {"op": op, "inplace": draw(st.booleans()), "target": draw(st.integers(0, 7))}
    if op == "translate":
        c["vec"] = [draw(st.integers(-64, 64)) / 8.0 for _ in range(dim)]
    elif op == "rotate":
        c["angle"] = draw(st.one_of(st.integers(-48, 48).map(lambda k: 15.0 * k), st.integers(-720 * 8, 720 * 8).map(lambda k: k / 8.0),
                                    st.sampled_from([36000.0, 36030.0, -71955.0, 25215.0, 1080000.0 + 90.0])))          # many whole turns are angles too
        c["axis"] = draw(st.integers(0, 2))
        c["partial"] = draw(st.booleans())
    elif op == "scale":
        c["mult"] = draw(st.sampled_from([-3.0, -1.0, -0.5, 0.125, 0.5, 1.0, 1.5, 2.0, 7.0 / 8, 5]))
    return c


@st.composite
def _cases(draw, tier):
    big = tier == "thorough"
    nel = draw(st.sampled_from([0, 0, 1, 2, 3]))      # 0 = bare shape, otherwise container of nel elements
    kind = draw(st.sampled_from(["curve", "surface", "volume"]))
    dim = draw(st.sampled_from([2, 3])) if kind == "curve" else 3
    shapes = [draw(gen.spline(kinds=(kind,), dims=(dim,), max_p=4 if big else 3, max_extra=4 if big else 3,
                              unclamped="maybe", vol_max_p=2, vol_max_extra=1)) for _ in range(max(nel, 1))]
    nsteps = draw(st.sampled_from([1, 1, 2, 3, 4]))
    steps = [draw(_op(dim)) for _ in range(nsteps)]
    if steps[0]["op"] == "read":
        steps.append(draw(_op(dim)))
    # the whole scene may be given in very small (or large) units: every coordinate and translation vector times an exact power of two
    return {"shapes": shapes, "container": nel > 0, "steps": steps, "dim": dim, "scale_exp": draw(st.sampled_from([0, 0, 0, 0, 0, 0, -30, -30, 20]))}


def _rot(p, o, axis, ang, sense):
    a = math.radians(ang) * sense
    c, s = math.cos(a), math.sin(a)
    q = [x - y for x, y in zip(p, o)]
    if len(q) == 2:
        r = [q[0] * c - q[1] * s, q[1] * c + q[0] * s]
    elif axis == 0:
        r = [q[0], q[1] * c - q[2] * s, q[2] * c + q[1] * s]
    elif axis == 1:
        r = [q[0] * c + q[2] * s, q[1], q[2] * c - q[0] * s]
    else:
        r = [q[0] * c - q[1] * s, q[1] * c + q[0] * s, q[2]]
    return [x + y for x, y in zip(r, o)]


def _apply(obj, st_, inplace, S=1.0):
    if st_["op"] == "translate":
        return operations.translate(obj, [x * S for x in st_["vec"]], inplace=inplace)
    if st_["op"] == "rotate":
        return operations.rotate(obj, st_["angle"], axis=st_["axis"], inplace=inplace)
    return operations.scale(obj, st_["mult"], inplace=inplace)


def _map_point(p, maps, sense):
    """Apply the recorded sequence of maps to a float point. Each map: (op, data, pivot-function)."""
    for m in maps:
        if m[0] == "translate":
            p = [x + v for x, v in zip(p, m[1])]
        elif m[0] == "scale":
            p = [x * m[1] for x in p]
        else:
            piv = m[3][sense]
            p = _rot(p, piv, m[2], m[1], sense if (m[2] == 1 and len(p) == 3) else 1.0)
    return p


def check_transform(case, ctx):
    S = 2.0 ** case.get("scale_exp", 0)
    ctx.label("tiny-or-large-units", S != 1.0)

    def _scaled(d):
        if S == 1.0:
            return d
        d = dict(d)
        d["P"] = [[c * S for c in q] for q in d["P"]]
        return d

    def _un(p):
        # back to the units of the generated definition (exact: S is a power of two)
        return [x / S for x in p]
    objs = [build.make(_scaled(d)) for d in case["shapes"]]
    Rs = [build.exact_from(d, o) for d, o in zip(case["shapes"], objs)]
    lats = [shape.obj_lattice(o) for o in objs]
    if case["container"]:
        cls = {"curve": multi.CurveContainer, "surface": multi.SurfaceContainer, "volume": multi.VolumeContainer}[case["shapes"][0]["kind"]]
        target = build.container(cls, objs, len(case["shapes"][0]["P"]))          # filled in one of the documented ways
    else:
        target = objs[0]
    start = [a for a, b in Rs[0].domain()]
    p0 = [float(x) for x in Rs[0].point(start)[0]]
    # the sampled grid is an evaluation entry point too: 3 samples per direction
    import itertools
    for o in objs:
        o.delta = 1.0 / 3
    if case["container"]:
        target.delta = 1.0 / 3
    grid_exact = []
    for R in Rs:
        dom = R.domain()
        pts = []
        for idx in itertools.product(range(3), repeat=R.pdim):
            us = [dom[k][0] + (dom[k][1] - dom[k][0]) * idx[k] / 2 for k in range(R.pdim)]
            p, sc = R.point(us)
            pts.append(([float(x) for x in p], float(sc)))
        grid_exact.append(pts)
    exact_pts = [[([float(x) for x in R.point(us)[0]], float(R.point(us)[1])) for us in lat] for R, lat in zip(Rs, lats)]
    # tracked targets: [object, list of maps]
    tracked = [[target, []]]
    any_rational = any(d["rational"] and len(set(d["W"])) > 1 for d in case["shapes"])
    nonright = False
    did = []
    for st_ in case["steps"]:
        tgt, maps = tracked[st_["target"] % len(tracked)]
        elems = list(tgt) if case["container"] else [tgt]
        if st_["op"] == "read":
            for e in elems:
                _ = e.ctrlpts
                _ = e.evalpts
                if e.rational:
                    _ = e.weights, e.ctrlptsw
            if case["container"]:
                _ = tgt.evalpts
            did.append("read")
            continue
        if st_["op"] == "rejected":
            # a call the library refuses (a translation vector with a missing component): nothing moves, and the calls after it work
            try:
                operations.translate(tgt, [1.0, None, 2.0][:case["dim"]], inplace=st_["inplace"])
                did.append("accepted-None-vector")
            except Exception:
                did.append("rejected")
            st_ = dict(st_, op="noop")
        if st_["op"] == "scale_roundtrip":
            # scaling by 2^-43 and back by 2^43 is exact in binary floating point: the shape must return where it was
            # (coordinates of size 1e-13 are still ordinary floats)
            operations.scale(tgt, 2.0 ** -43, inplace=True)
            operations.scale(tgt, 2.0 ** 43, inplace=True)
            did.append("scale_roundtrip!")
            st_ = dict(st_, op="noop")
        before = [build.snapshot(e) for e in elems]
        m = None
        fresh_copy = None
        if st_["op"] == "noop":
            m = None
        elif st_["op"] == "translate":
            m = ("translate", list(st_["vec"]))
        elif st_["op"] == "scale":
            m = ("scale", st_["mult"])
        else:
            # pivot = current start point of the (first) shape, under either y-handedness
            m = ("rotate", st_["angle"], st_["axis"], {1.0: _map_point(p0, maps, 1.0), -1.0: _map_point(p0, maps, -1.0)})
            nonright = nonright or st_["angle"] % 90 != 0
        if st_["op"] == "rotate" and st_.get("partial") and st_["inplace"]:
            # only a part of the shape was sampled before it is turned (the pivot is still the start point of the shape)
            for e in elems:
                if e.pdimension == 1:
                    a, b = e.domain
                    e.evaluate(start=a + 0.25 * (b - a), stop=a + 0.75 * (b - a))
                elif e.pdimension == 2:
                    (a, b), (c_, d_) = e.domain
                    e.evaluate(start_u=a + 0.25 * (b - a), stop_u=a + 0.75 * (b - a), start_v=c_ + 0.5 * (d_ - c_), stop_v=d_)
            ctx.label("partly-sampled-before-rotation")
        if st_["op"] == "noop":
            res = tgt
        else:
            res = _apply(tgt, st_, st_["inplace"], S)
            did.append(st_["op"] + ("!" if st_["inplace"] else ""))
        if st_["op"] == "noop":
            pass
        elif st_["inplace"]:
            ctx.check(res is tgt, "inplace-returns-other-object", "inplace=True returned a different object")
            maps.append(m)
        else:
            relems = list(res) if case["container"] else [res]
            ctx.check(res is not tgt and all(r is not e for r in relems for e in elems), "copy-returns-input",
                      "%s with inplace=False returned (part of) its input" % st_["op"])
            ctx.check([build.snapshot(e) for e in elems] == before, "input-modified", "%s with inplace=False modified its input" % st_["op"])
            tracked.append([res, list(maps) + [m]])
            fresh_copy = res
        # every tracked target still is the recorded map of the original
        for ti, (tg, mp) in enumerate(tracked):
            els = list(tg) if case["container"] else [tg]
            ctx.check(len(els) == len(objs), "element-count", "target %d has %d elements, input %d" % (ti, len(els), len(objs)))
            okany, fail = False, None
            for sense in (1.0, -1.0):
                fail = None
                for ei_, (d, e, lat, ex) in enumerate(zip(case["shapes"], els, lats, exact_pts)):
                    if d["rational"]:
                        w_after = list(e.weights)
                        ctx.check(len(w_after) == len(d["W"]) and all(abs(x - y) <= 1e-12 for x, y in zip(w_after, d["W"])), "weights-changed",
                                  "after %r the weights of target %d changed: %r -> %r" % (did, ti, d["W"], w_after))
                    for us, (p, sc) in zip(lat, ex):
                        want = _map_point(p, mp, sense)
                        got = _un(e.evaluate_single(build.call_param(e, [float(x) for x in us])))
                        mag = 1.0 + sc + max(abs(x) for x in want) + max(abs(x) for x in p0)
                        for mm in mp:
                            if mm[0] == "scale":
                                mag *= max(1.0, abs(mm[1]))
                            elif mm[0] == "translate":
                                mag += max(abs(x) for x in mm[1])
                        if len(got) != len(want) or any(abs(a - b) > 1e-9 * mag for a, b in zip(got, want)):
                            fail = "after %r target %d (maps %r): point at %r is %r, expected %r" % (
                                did, ti, [(x[0], x[1]) for x in mp], [float(x) for x in us], got, want)
                            break
                    if fail:
                        break
                    # sampled grid of the element
                    ev = [_un(q) for q in e.evalpts]
                    gex = grid_exact[ei_]          # (by position: list.index would use the library's tolerance-based ==)
                    if len(ev) != len(gex):
                        fail = "after %r target %d: evalpts has %d points, expected %d" % (did, ti, len(ev), len(gex))
                        break
                    for g, (p, sc) in zip(ev, gex):
                        want = _map_point(p, mp, sense)
                        mag = 1.0 + sc + max(abs(x) for x in want) + max(abs(x) for x in p0)
                        for mm in mp:
                            if mm[0] == "scale":
                                mag *= max(1.0, abs(mm[1]))
                            elif mm[0] == "translate":
                                mag += max(abs(x) for x in mm[1])
                        if any(abs(a - b) > 1e-9 * mag for a, b in zip(g, want)):
                            fail = "after %r target %d (maps %r): sampled point %r, expected %r (evalpts does not follow the transform)" % (did, ti, [(x[0], x[1]) for x in mp], g, want)
                            break
                    if fail:
                        break
                if not fail and case["container"] and tg is fresh_copy:
                    # a container just returned by a non-inplace transform: its aggregated evalpts are the mapped grids
                    agg = [_un(q) for q in tg.evalpts]
                    flat = [(p, sc) for gex in grid_exact for (p, sc) in gex]
                    if len(agg) != len(flat):
                        fail = "after %r: the returned container's evalpts has %d points, expected %d" % (did, len(agg), len(flat))
                    else:
                        for g, (p, sc) in zip(agg, flat):
                            want = _map_point(p, mp, sense)
                            mag = (1.0 + sc + max(abs(x) for x in want) + max(abs(x) for x in p0)) * 64.0
                            if any(abs(a - b) > 1e-9 * mag for a, b in zip(g, want)):
                                fail = "after %r: evalpts of the container returned by %s is %r, expected %r" % (did, did[-1], g, want)
                                break
                if not fail:
                    okany = True
                    break
            ctx.check(okany, "transform-differs", fail or "")
    ctx.nt(any_rational, "rational-varied")
    ctx.nt(case["container"] and len(objs) >= 2, "container>=2")
    ctx.nt(nonright, "angle-not-multiple-of-90")
    ctx.nt(case["shapes"][0]["kind"] == "volume", "volume")
    ctx.nt(len([x for x in did if x != "read"]) >= 2, "sequence>=2")
    ctx.label("with-read", "read" in did)
    ctx.label("unclamped", any(d.get("unclamped") for d in case["shapes"]))
    for x in set(did):
        ctx.label("op:" + x)


SUBCHECKS = [
    SubCheck("transform", _cases, check_transform, quick=600, thorough=3000, shards_quick=2,
             rule="non-trivial = rational with varied weights, or container with >= 2 elements, or angle not a multiple of 90, or volume, "
                  "or a sequence of >= 2 transforms over originals and copies"),
]
