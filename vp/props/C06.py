"""C06 - removing a removable knot is exact and inverts insertion (DESIGN.md section 5, C06)."""
from fractions import Fraction as F

from hypothesis import strategies as st

from geomdl import operations, helpers

from vp import gen, build, ref, shape
from vp.core import SubCheck, Skip
from vp.props.C04 import ins_desc, pick_insert, _do_insert

RULE = ("Cases: generated clamped curves/surfaces/volumes; histories interleaving knot insertions (or a refinement) with "
        "removals of knots that are removable BY CONSTRUCTION (a ledger of inserted copies); oracle = exact reference of "
        "the original definition on a lattice, exact knot-vector bookkeeping, and restoration of the original "
        "homogeneous control points when everything inserted has been removed.")
ASSUMPTIONS = ["only knots removable by construction are removed; the tolerance branch for non-removable knots is not exercised",
               "control points restored to 1e-8 * (1 + max |coordinate|)"]


def removal_noise(p, kv, u, num):
    """Rounding-noise bound (relative) of removing the knot u `num` times.  Each removed copy solves the insertion equations
    backwards from both ends of the affected control points (The NURBS Book A5.8): the left chain divides by
    alpha_i = (u - U_i) / (U_{i+p+1+t} - U_i) once per point, the right chain by 1 - alpha_j.  A knot very close to the start
    (or end) of the supports it is removed from therefore amplifies float rounding by the PRODUCT of these quotients -
    inherent to the problem, not to the code - and the comparison tolerance is max(usual tolerance, this bound)."""
    idx = [i for i, k in enumerate(kv) if abs(k - u) <= 1e-7]
    if not idx:
        return 0.0
    r, s = idx[-1], len(idx)
    order = p + 1
    first, last = r - p, r - s
    total = 1.0
    for t in range(num):
        i, j = first, last
        left = right = 1.0
        while j - i > t:
            if 0 <= i and i + order + t < len(kv) and kv[i + order + t] > kv[i]:
                a = (u - kv[i]) / (kv[i + order + t] - kv[i])
                if 0.0 < a < 1.0:
                    left /= a
            if 0 <= j - t and j + order < len(kv) and kv[j + order] > kv[j - t]:
                b = (u - kv[j - t]) / (kv[j + order] - kv[j - t])
                if 0.0 < b < 1.0:
                    right /= (1.0 - b)
            i += 1
            j -= 1
        total *= max(left, right, 1.0)
        first -= 1
        last += 1
    return 64 * 2.3e-16 * total


def _do_remove(obj, params, nums, form):
    pdim = obj.pdimension
    if form == "ops":
        operations.remove_knot(obj, list(params), list(nums))
    elif pdim == 1:
        obj.remove_knot(params[0], num=nums[0])
    elif pdim == 2:
        obj.remove_knot(u=params[0], v=params[1], num_u=nums[0], num_v=nums[1])
    else:
        obj.remove_knot(u=params[0], v=params[1], w=params[2], num_u=nums[0], num_v=nums[1], num_w=nums[2])


@st.composite
def _history_cases(draw, tier):
    big = tier == "thorough"
    d = draw(gen.spline(ranges=("far", "tiny"), max_p=5 if big else 4, max_extra=4 if big else 3, affine_range="maybe", normalize="maybe",
                        vol_max_p=3, vol_max_extra=2))
    pdim = len(d["degree"])
    # exact power-of-two scaling of the control net: the property quantifies over all control nets, also far from unit size
    sc = draw(st.sampled_from([0, 0, 0, 14, 17, -10]))
    if sc:
        d["P"] = [[c * 2.0 ** sc for c in p] for p in d["P"]]
        d["scale_exp"] = sc
    nsteps = draw(st.integers(2, 10 if big else 6))
    if d["kind"] == "volume":
        nsteps = min(nsteps, 4)
    steps = []
    for i in range(nsteps):
        kind = "ins" if i == 0 else draw(st.sampled_from(["ins", "rem", "rem"]))
        if kind == "ins":
            dirs = [draw(st.one_of(st.none(), ins_desc())) for _ in range(pdim)]
            if all(x is None for x in dirs):
                dirs[draw(st.integers(0, pdim - 1))] = draw(ins_desc())
            steps.append({"op": "ins", "dirs": dirs, "form": draw(st.sampled_from(["ops", "method"]))})
        else:
            steps.append({"op": "rem", "sel": draw(st.integers(0, 63)), "cnt": draw(st.integers(0, 7)),
                          "two": draw(st.booleans()), "sel2": draw(st.integers(0, 63)), "cnt2": draw(st.integers(0, 7)),
                          "form": draw(st.sampled_from(["ops", "method"]))})
    return {"defn": d, "steps": steps, "fork": draw(st.integers(0, 3)) == 0}


def _orig_points_close(ctx, obj, orig_pts, tag, what, noise=0.0):
    now = build.stored_points(obj)
    ctx.check(len(now) == len(orig_pts), tag, "%s: %d control points, originally %d" % (what, len(now), len(orig_pts)))
    big = max(1.0, max(abs(c) for p in orig_pts for c in p))
    for i, (a, b) in enumerate(zip(now, orig_pts)):
        ctx.check(all(abs(x - y) <= max(1e-8, noise) * big for x, y in zip(a, b)), tag,
                  "%s: control point %d is %r, originally %r" % (what, i, a, b))


def check_history(case, ctx):
    d = case["defn"]
    obj = build.make(d)
    R = build.exact_from(d, obj)
    pdim = len(d["degree"])
    degs = d["degree"]
    orig = build.snapshot(obj)
    ledger = []          # [dir, u, removable copies]
    removed_any = full_restore = r2 = onknot = False
    nrem = 0
    noise = 0.0          # accumulated conditioning bound of the removals done so far (see removal_noise)
    source = src_views = None
    for st_ in case["steps"]:
        kvs, szs = build.kvs_of(obj), build.sizes_of(obj)
        if st_["op"] == "ins":
            params, nums = [None] * pdim, [0] * pdim
            for k, desc in enumerate(st_["dirs"]):
                if desc is None:
                    continue
                if desc[0] == "near":
                    # removing one of two knots 4e-6 apart is exact only up to the conditioning of that pair; the
                    # near-knot class is exercised for insertion (C04) and splitting (C07), not for removal
                    desc = ["in"] + list(desc[1:])
                pick = pick_insert(degs[k], kvs[k], szs[k], desc, others=[o for j, o in enumerate(kvs) if j != k],
                                   again=[e[1] for e in ledger if e[0] == k])
                ctx.label("non-dyadic-parameter", desc[0] in ("decimal", "again"))
                if pick is None:
                    continue
                u, s, r = pick
                params[k], nums[k] = u, r
                onknot = onknot or s >= 1
            if all(x is None for x in params):
                continue
            _do_insert(obj, params, nums, st_["form"])
            if obj.rational and len(ledger) % 2 == 0:
                _ = list(obj.weights)          # only the weights of the grown net are looked at (not the unweighted points)
            for k in range(pdim):
                if params[k] is not None:
                    for e in ledger:
                        if e[0] == k and e[1] == params[k]:
                            e[2] += nums[k]
                            break
                    else:
                        ledger.append([k, params[k], nums[k]])
            continue
        live = [e for e in ledger if e[2] > 0]
        if not live:
            continue
        if case.get("fork") and source is None:
            # the removals are made on a deep copy; the refined shape it was copied from keeps its net and its views
            import copy
            _ = obj.ctrlpts, (obj.weights if obj.rational else None)
            source, obj = obj, copy.deepcopy(obj)
            src_views = (build.snapshot(source), [list(q) for q in source.ctrlpts], list(source.weights) if source.rational else None)
            ctx.label("removals-on-a-deep-copy")
        e1 = live[st_["sel"] % len(live)]
        picks = [(e1, 1 + st_["cnt"] % e1[2])]
        if st_["two"]:
            others = [e for e in live if e[0] != e1[0]]
            if others:
                e2 = others[st_["sel2"] % len(others)]
                picks.append((e2, 1 + st_["cnt2"] % e2[2]))
        params, nums = [None] * pdim, [0] * pdim
        for e, c in picks:
            params[e[0]], nums[e[0]] = e[1], c
            r2 = r2 or c >= 2
            amp_ = removal_noise(degs[e[0]], kvs[e[0]], e[1], c) / (64 * 2.3e-16)
            noise = noise * max(1.0, amp_) + 64 * 2.3e-16 * amp_          # a removal also amplifies the noise the net already carries
        big_ = max(1.0, max(abs(c_) for q_ in orig["pts"] for c_ in q_))
        if noise > 1e-6 or 16 * noise * big_ > 1e-3:
            # (the second bound is absolute because the library's own removability test is: a chain mismatch above 10e-4 in model
            # units - here pure rounding, amplified by the conditioning and the size of the coordinates - counts as "not removable")
            raise Skip("removal of a knot too close to the start of its supports is ill-conditioned")
        ctx.label("conditioning-widened-tolerance", noise > 1e-9)
        _do_remove(obj, params, nums, st_["form"])
        nrem += 1
        removed_any = True
        nkvs, nszs = build.kvs_of(obj), build.sizes_of(obj)
        for k in range(pdim):
            if params[k] is None:
                ctx.check(nkvs[k] == kvs[k] and nszs[k] == szs[k], "other-direction-changed",
                          "removal %r x%r changed direction %d" % (params, nums, k))
                continue
            want = shape.kv_minus(kvs[k], params[k], nums[k])
            ctx.check(want is not None and shape.kv_close(nkvs[k], want), "knot-vector",
                      "after removing %r x%d (dir %d) the knot vector is %r, expected %r" % (params[k], nums[k], k, nkvs[k], want))
            ctx.check(nszs[k] == szs[k] - nums[k], "net-size",
                      "after removing %r x%d (dir %d) the size is %d, expected %d" % (params[k], nums[k], k, nszs[k], szs[k] - nums[k]))
        for e, c in picks:
            e[2] -= c
        total = 1
        for s_ in nszs:
            total *= s_
        ctx.check(len(build.stored_points(obj)) == total, "net-count", "control net has %d points for sizes %r" % (len(build.stored_points(obj)), nszs))
        if obj.rational:
            # the net shrank: the unweighted points and the weights shrink with it (either view may be read first)
            if nrem % 2:
                Wv, Pv = list(obj.weights), [list(q) for q in obj.ctrlpts]
            else:
                Pv, Wv = [list(q) for q in obj.ctrlpts], list(obj.weights)
            ctx.check(len(Pv) == total and len(Wv) == total, "net-views-size", "after the removal ctrlpts has %d and weights %d entries for a net of %d" % (len(Pv), len(Wv), total))
        if source is not None:
            now = (build.snapshot(source), [list(q) for q in source.ctrlpts], list(source.weights) if source.rational else None)
            ctx.check(now == src_views, "copy-source-changed", "after a removal from a deep copy the source reports %d control points (%d before)" % (len(now[1]), len(src_views[1])))
        lat = shape.obj_lattice(obj, extras=[[e[1] for e in ledger if e[0] == k] for k in range(pdim)])
        shape.same_shape(ctx, R, obj, lat, "shape-changed", "after removing %r x%r via %s (removal #%d)" % (params, nums, st_["form"], nrem),
                         rel=max(1e-9, 16 * noise))
        if all(e[2] == 0 for e in ledger):
            full_restore = True
            ctx.check(all(shape.kv_close(x, y) for x, y in zip(build.kvs_of(obj), orig["kv"])), "knot-vector-not-restored", "all inserted knots removed but knot vectors are %r, originally %r" % (build.kvs_of(obj), orig["kv"]))
            _orig_points_close(ctx, obj, orig["pts"], "control-points-not-restored", "insert then remove everything", 16 * noise)
    ctx.nt(removed_any and r2, "removal-count>=2")
    ctx.nt(removed_any and onknot, "inserted-on-existing-knot")
    ctx.nt(removed_any and build.varied_weights(d), "rational-varied")
    ctx.nt(removed_any and pdim >= 2, "surface-or-volume")
    ctx.nt(full_restore, "full-restore")
    ctx.label("kind:" + d["kind"])
    ctx.label("scaled-control-net", bool(d.get("scale_exp")))
    ctx.label("removals>=2", nrem >= 2)
    ctx.label("no-removal", not removed_any)


# ------------------------------------------------------------------------------------------------ refinement then removal
@st.composite
def _refine_cases(draw, tier):
    d = draw(gen.spline(ranges=("far", "tiny"), max_p=4, max_extra=3, affine_range="maybe", normalize="maybe", vol_max_p=2, vol_max_extra=1))
    pdim = len(d["degree"])
    return {"defn": d, "dir": draw(st.integers(0, pdim - 1)), "sel": draw(st.integers(0, 63)), "cnt": draw(st.integers(0, 7)),
            "all": draw(st.booleans())}


def check_refine_remove(case, ctx):
    d = case["defn"]
    obj = build.make(d)
    R = build.exact_from(d, obj)
    pdim = len(d["degree"])
    k = case["dir"]
    p = d["degree"][k]
    orig = build.snapshot(obj)
    dens = [0] * pdim
    dens[k] = 1
    operations.refine_knotvector(obj, dens)
    twin_mode = False
    if pdim >= 2 and k < 2 and d["degree"][0] == d["degree"][1] and d["kv"][0] == d["kv"][1]:
        # both twin directions refined alike; the shape is then rebuilt from its stored definition the way a caller holding ONE
        # knot vector list would do it (the same list object handed to both setters)
        dens2 = [0] * pdim
        dens2[1 - k] = 1
        operations.refine_knotvector(obj, dens2)
        snap = build.snapshot(obj)
        o2 = obj.__class__(normalize_kv=bool(d.get("normalize", True)))
        for nm, val in zip(("degree_u", "degree_v", "degree_w"), snap["degree"]):
            setattr(o2, nm, val)
        o2.set_ctrlpts([list(q) for q in snap["pts"]], *snap["size"])
        shared = list(snap["kv"][0])
        for i_, nm in enumerate(("knotvector_u", "knotvector_v", "knotvector_w")[:pdim]):
            setattr(o2, nm, shared if snap["kv"][i_] == shared else list(snap["kv"][i_]))
        obj = o2
        twin_mode = True
        ctx.label("twin-directions-sharing-one-list")
    kv0 = orig["kv"][k]
    kv1 = build.kvs_of(obj)[k]
    # removable copies per distinct interior knot = multiplicity now - multiplicity originally
    cand = []
    for u in sorted(set(kv1[p + 1:len(kv1) - p - 1])):
        extra = shape.multiplicity(kv1, u) - shape.multiplicity(kv0, u)
        if extra > 0:
            cand.append((u, extra))
    if not cand:
        ctx.label("nothing-removable")
        return
    ctx.nt(True, "refinement-then-removal")
    ctx.label("kind:" + d["kind"])
    todo = cand if case["all"] else [cand[case["sel"] % len(cand)]]
    for u, extra in todo:
        c = extra if case["all"] else 1 + case["cnt"] % extra
        params, nums = [None] * pdim, [0] * pdim
        params[k], nums[k] = u, c
        before_all = build.kvs_of(obj)
        before = before_all[k]
        operations.remove_knot(obj, params, nums)
        for j_, (x, y) in enumerate(zip(before_all, build.kvs_of(obj))):
            ctx.check(j_ == k or x == y, "other-direction-changed", "removing %r x%d in direction %d changed the knot vector of direction %d: %r -> %r" % (u, c, k, j_, x, y))
        want = shape.kv_minus(before, u, c)
        ctx.check(want is not None and shape.kv_close(build.kvs_of(obj)[k], want), "knot-vector", "after removing %r x%d the knot vector is %r, expected %r" % (u, c, build.kvs_of(obj)[k], want))
        lat = shape.obj_lattice(obj)
        shape.same_shape(ctx, R, obj, lat, "shape-changed", "refine then remove %r x%d (dir %d)" % (u, c, k))
    if case["all"] and twin_mode:
        # the other twin direction stays refined here; only the direction that was cleaned up is back to its original knots
        ctx.check(shape.kv_close(build.kvs_of(obj)[k], orig["kv"][k]), "knot-vector-not-restored", "refinement of direction %d fully removed but its knot vector differs" % k)
    elif case["all"]:
        ctx.check(all(shape.kv_close(x, y) for x, y in zip(build.kvs_of(obj), orig["kv"])), "knot-vector-not-restored", "refinement fully removed but knot vectors differ")
        _orig_points_close(ctx, obj, orig["pts"], "control-points-not-restored", "refine then remove everything")


# ------------------------------------------------------------------------------------------------ helper level
@st.composite
def _helper_cases(draw, tier):
    d = draw(gen.spline(ranges=("far", "tiny"), kinds=("curve",), max_p=6 if tier == "thorough" else 4, max_extra=5, affine_range="maybe",
                        normalize=False, long=True))
    return {"defn": d, "ins": draw(ins_desc()), "cnt": draw(st.integers(0, 7)), "rows": draw(st.integers(0, 3))}


def check_helper(case, ctx):
    d = case["defn"]
    p, kv, n = d["degree"][0], list(d["kv"][0]), d["size"][0]
    ins = (["in"] + list(case["ins"][1:])) if case["ins"][0] in ("near", "within") else case["ins"]
    pick = pick_insert(p, kv, n, ins)
    if pick is None:
        ctx.label("no-op-case")
        return
    u, s, r = pick
    pts = build.homogeneous(d["P"], d["W"]) if d["rational"] else [list(q) for q in d["P"]]
    rows = case["rows"]
    cp = [[[c + 0.5 * j for c in pt] for j in range(rows)] for pt in pts] if rows else pts
    span = helpers.find_span_linear(p, kv, n, u)
    cp1 = helpers.knot_insertion(p, kv, cp, u, num=r, s=s, span=span)
    kv1 = helpers.knot_insertion_kv(kv, u, span, r)
    rr = 1 + case["cnt"] % r
    span1 = helpers.find_span_linear(p, kv1, len(cp1), u)
    s1 = helpers.find_multiplicity(u, kv1)
    keep = [list(map(list, q)) if rows else list(q) for q in cp1]
    noise = removal_noise(p, kv1, u, rr)
    if noise > 1e-6:
        raise Skip("removal of a knot too close to the start of its supports is ill-conditioned")
    ctx.label("conditioning-widened-tolerance", noise > 1e-8)
    kv1_arg = tuple(kv1) if d.get("kv_tuple") else kv1          # the helpers document list or tuple
    cp2 = helpers.knot_removal(p, kv1_arg, cp1, u, num=rr, s=s1, span=span1)
    kv1_keep = list(kv1)
    # the documented call names only 'num'; multiplicity and span are then found by the helper itself
    cp2_default = helpers.knot_removal(p, kv1_arg, cp1, u, num=rr)
    ctx.check(cp2_default == cp2, "helper-defaults", "knot_removal(..., num=%d) without s/span differs from the call with the found multiplicity %d and span %d" % (rr, s1, span1))
    kv2 = list(helpers.knot_removal_kv(kv1_arg, span1, rr))
    ctx.label("helper-modified-its-knot-vector-argument", list(kv1) != kv1_keep)          # observed only: the property makes no claim about it
    kv1 = kv1_keep
    ctx.nt(rr >= 2, "removal-count>=2")
    ctx.nt(s >= 1, "inserted-on-existing-knot")
    ctx.nt(build.varied_weights(d), "rational-varied")
    ctx.nt(rows > 0, "rows")
    ctx.nt(rr == r, "full-restore")
    ctx.check(cp1 == keep, "helper-input-modified", "knot_removal modified its input control points (documented: 'Don't change input variables')")
    want = list(kv1)
    for _ in range(rr):
        want.remove(u)
    ctx.check(list(kv2) == want, "helper-knot-vector", "knot_removal_kv gives %r, expected %r" % (kv2, want))
    ctx.check(len(cp2) == n + r - rr, "helper-net-size", "knot_removal returned %d points, expected %d" % (len(cp2), n + r - rr))
    lat = shape.lattice([p], [kv2], [n + r - rr], extras=[[u]], limit=9)
    for j in range(max(rows, 1)):
        old = ref.Spline([p], [kv], [n], [q[j] for q in cp] if rows else cp, d["rational"])
        new = ref.Spline([p], [kv2], [n + r - rr], [q[j] for q in cp2] if rows else cp2, d["rational"])
        for us in lat:
            a, sc = old.point(us)
            b, _ = new.point(us)
            ctx.check(all(abs(x - y) <= F(max(1e-8, noise)) * sc for x, y in zip(a, b)), "helper-shape-changed",
                      "insert %r x%d then knot_removal x%d: point at %r moved from %r to %r" % (u, r, rr, float(us[0]), ref.fl(a), ref.fl(b)))
    if rr == r:
        big = max(1.0, max(abs(c) for q in pts for c in q))
        flat_new = [q[j] for q in cp2 for j in range(rows)] if rows else cp2
        flat_old = [q[j] for q in cp for j in range(rows)] if rows else cp
        for a, b in zip(flat_new, flat_old):
            ctx.check(all(abs(x - y) <= max(1e-8, noise) * big for x, y in zip(a, b)), "helper-control-points-not-restored",
                      "insert %r x%d then remove x%d: control point %r, originally %r" % (u, r, rr, a, b))


SUBCHECKS = [
    SubCheck("history", _history_cases, check_history, quick=350, thorough=1500, shards_quick=2,
             rule="non-trivial = history containing a removal with count >= 2, or of a knot inserted on an existing knot, or on a "
                  "rational shape with varied weights, or on a surface/volume, or removing everything that was inserted"),
    SubCheck("refine_remove", _refine_cases, check_refine_remove, quick=200, thorough=1000,
             rule="every case removes knots produced by refinement"),
    SubCheck("helper", _helper_cases, check_helper, quick=400, thorough=2000,
             rule="helper-level insertion then knot_removal/knot_removal_kv; non-trivial as history, or rows of points"),
]

# coverage-guided tier (thorough only): (sub-check, libFuzzer runs per process, processes)
FUZZ = [("helper", 20000, 3)]
