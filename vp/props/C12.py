"""C12 - no stale derived state after any sequence of edits (DESIGN.md section 5, C12).

Histories are generated as lists of steps (mutator + the set of views read afterwards); a plain interpreter applies
them, so a saved history replays without Hypothesis.  After every step the selected views of the live object must
equal the same views of a FRESH object built from the live object's current stored definition.
"""
import copy

from hypothesis import strategies as st

from geomdl import operations, multi, tessellate

from vp import gen, build, shape
from vp.core import SubCheck
from vp.props.C04 import ins_desc, pick_insert

RULE = ("Cases: histories of public mutators (control points, weights, knot vectors, sampling density, redefinition, knot "
        "insertion/removal/refinement, reverse, transpose, flip, in-place transforms, deep copy + edit, container add / "
        "density / element edits) interleaved with reads of derived views on BSpline/NURBS curves, surfaces, volumes "
        "and containers; oracle = a fresh object built from the current stored definition reports the same views.")
ASSUMPTIONS = ["views compared to 1e-12 relative (same code on the same stored data)",
               "the stored definition is read through the uncached accessors (ctrlptsw / ctrlpts of non-rational shapes, knotvector, delta)"]

SLUG_CONT = "C12-container-cache-vs-element-edit"
VIEWS = ["ctrlpts", "weights", "ctrlpts2d", "evalpts", "bbox", "sample_size", "data", "tess", "single", "bezier", "tess_force", "tess_spacing"]


# ------------------------------------------------------------------------------------------------ helpers
def kv_from_ints(p, n, ints, rng=(0.0, 1.0)):
    m = n - p - 1
    vals = [1 + (ints[i % len(ints)] % 63) for i in range(m)]
    inner = [v / 64.0 for v in gen._repair_mult(vals, p)]
    a, b = rng
    return [a] * (p + 1) + [a + (b - a) * k for k in inner] + [b] * (p + 1)


def fresh(obj, norm):
    """A new object of the same class built from the stored definition of obj."""
    new = obj.__class__(normalize_kv=norm)
    degs, szs, kvs = build.degrees_of(obj), build.sizes_of(obj), build.kvs_of(obj)
    pd = obj.pdimension
    if pd == 1:
        new.degree = degs[0]
    elif pd == 2:
        new.degree_u, new.degree_v = degs
    else:
        new.degree_u, new.degree_v, new.degree_w = degs
    new.set_ctrlpts(build.stored_points(obj), *szs)
    if pd == 1:
        new.knotvector = list(kvs[0])
    elif pd == 2:
        new.knotvector_u, new.knotvector_v = list(kvs[0]), list(kvs[1])
    else:
        new.knotvector_u, new.knotvector_v, new.knotvector_w = [list(k) for k in kvs]
    new.delta = obj.delta
    return new


def _num_eq(a, b):
    return abs(a - b) <= 1e-12 * (1.0 + abs(b))


def _deep_eq(a, b):
    if isinstance(a, (list, tuple)) and isinstance(b, (list, tuple)):
        return len(a) == len(b) and all(_deep_eq(x, y) for x, y in zip(a, b))
    if isinstance(a, (int, float)) and isinstance(b, (int, float)):
        return _num_eq(float(a), float(b))
    if isinstance(a, dict) and isinstance(b, dict):
        return set(a) == set(b) and all(_deep_eq(a[k], b[k]) for k in a)
    return a == b


def read_view(obj, view):
    pd = obj.pdimension
    if view == "ctrlpts":
        return [list(p) for p in obj.ctrlpts]
    if view == "weights":
        return list(obj.weights) if obj.rational else None
    if view == "ctrlpts2d":
        return [[list(p) for p in row] for row in obj.ctrlpts2d] if pd == 2 else None
    if view == "evalpts":
        return [list(p) for p in obj.evalpts]
    if view == "bbox":
        return [list(x) for x in obj.bbox]
    if view == "sample_size":
        return obj.sample_size if pd == 1 else list(obj.sample_size)
    if view == "data":
        d = obj.data
        return {k: (list(map(list, d[k])) if k in ("control_points", "knotvector") else (list(d[k]) if isinstance(d[k], tuple) else d[k])) for k in d}
    if view == "tess_spacing":
        # re-tessellation on request with a different keyword of the component gives that mesh (whatever mesh existed before);
        # the default mesh is put back afterwards so that the later plain reads see what a fresh object would
        if pd != 2 or obj.dimension != 3:
            return None
        obj.tessellate(force=True, vertex_spacing=2)
        out = [[v.id, list(v.uv), list(v.data)] for v in obj.vertices], [list(f.data) for f in obj.faces]
        obj.tessellate(force=True)
        return out
    if view in ("tess", "tess_force"):
        if pd != 2 or obj.dimension != 3:
            return None
        if view == "tess":
            obj.tessellate()
        else:
            obj.tessellate(force=True)          # re-tessellation on request gives the mesh again, not more of it
        return [[v.id, list(v.uv), list(v.data)] for v in obj.vertices], [list(f.data) for f in obj.faces]
    if view == "bezier":
        # derived from the definition by the library: the Bezier segments of a curve
        if pd != 1 or obj.ctrlpts_size > 9:
            return None
        return [build.stored_points(c) for c in operations.decompose_curve(obj)]
    if view == "single":
        dom = [obj.domain] if pd == 1 else list(obj.domain)
        mid = [a + (b - a) * 0.375 for a, b in dom]
        return list(obj.evaluate_single(build.call_param(obj, mid)))
    raise ValueError(view)


def compare_views(ctx, obj, norm, views, what, tagp="stale"):
    fr = fresh(obj, norm)
    for v in views:
        got = read_view(obj, v)
        want = read_view(fr, v)
        ctx.check(_deep_eq(got, want), "%s-%s" % (tagp, v),
                  "%s: view '%s' of the edited object differs from a freshly built object with the same definition (got %s..., fresh %s...)" % (
                      what, v, repr(got)[:160], repr(want)[:160]))


# ------------------------------------------------------------------------------------------------ object histories
MUTATORS = ["setP", "setPw", "setW", "setkv", "delta", "sample", "insert", "refine", "remove", "reverse", "transpose", "flip",
            "translate", "rotate", "scale", "redefine", "copy_edit", "ops_copy", "evaluate_range", "degree", "refused", "convert_side", "noop"]


@st.composite
def _step(draw):
    m = draw(st.sampled_from(MUTATORS))
    s = {"m": m, "views": draw(st.lists(st.sampled_from(VIEWS), min_size=0, max_size=4, unique=True)),
         "ints": draw(st.lists(st.integers(0, 1000), min_size=6, max_size=6)),
         "k": draw(st.integers(0, 2)), "n": draw(st.integers(2, 9))}
    if m in ("setP", "setPw", "redefine", "copy_edit"):
        s["seed"] = draw(st.integers(0, 10 ** 6))
    if m in ("setW", "setPw", "redefine"):
        s["wseed"] = draw(st.integers(0, 10 ** 6))
    if m == "insert":
        s["ins"] = draw(ins_desc())
    if m in ("translate", "ops_copy"):
        s["vec"] = [draw(st.integers(-16, 16)) / 8.0 for _ in range(3)]
    if m == "rotate":
        s["angle"] = draw(st.sampled_from([15.0, 30.0, 90.0, -45.0, 180.0, 37.5]))
    if m == "scale":
        s["mult"] = draw(st.sampled_from([0.5, 2.0, -1.0, 1.5]))
    return s


@st.composite
def _obj_cases(draw, tier):
    d = draw(gen.spline(max_p=3, max_extra=3, dims=None, vol_max_p=2, vol_max_extra=1, affine_range="maybe", normalize="maybe"))
    n = draw(st.integers(2, 12 if tier == "thorough" else 7))
    return {"defn": d, "first_views": draw(st.lists(st.sampled_from(VIEWS), min_size=0, max_size=5, unique=True)),
            "steps": [draw(_step()) for _ in range(n)]}


def _pts(count, dim, seed):
    # deterministic pseudo-points on the 1/8 grid derived from a generated integer (no RNG)
    out = []
    x = seed * 2654435761 % (2 ** 32)
    for i in range(count):
        p = []
        for _ in range(dim):
            x = (x * 1103515245 + 12345) % (2 ** 31)
            p.append(((x >> 8) % 129 - 64) / 8.0)
        out.append(p)
    return out


def _wts(count, seed):
    x = seed * 40503 % (2 ** 31)
    out = []
    for _ in range(count):
        x = (x * 1103515245 + 12345) % (2 ** 31)
        out.append(gen.WEIGHTS[(x >> 8) % len(gen.WEIGHTS)])
    return out


def apply_mutator(obj, s, st_, ctx):
    """Apply one mutator in place. st_ carries harness-side state (ledger of inserted knots, normalise flag).
    Returns (obj, applied-name or None)."""
    m = s["m"]
    pd = obj.pdimension
    degs, szs, kvs = build.degrees_of(obj), build.sizes_of(obj), build.kvs_of(obj)
    count = len(build.stored_points(obj))
    dim = obj.dimension
    norm = st_["norm"]
    if m == "noop":
        return obj, None
    if m == "setP":
        obj.ctrlpts = _pts(count, dim, s["seed"])
        if pd > 1 and False:
            pass
        return obj, m
    if m == "setPw":
        P = _pts(count, dim, s["seed"])
        if obj.rational:
            obj.set_ctrlpts(build.homogeneous(P, _wts(count, s["wseed"])), *szs)
        else:
            obj.set_ctrlpts(P, *szs)
        return obj, m
    if m == "setW":
        if not obj.rational:
            return obj, None
        if s["wseed"] % 3 == 0:
            w = obj.weights              # read / edit in place / write back
            for j, x in enumerate(_wts(count, s["wseed"])):
                w[j] = x
            obj.weights = w
        else:
            obj.weights = _wts(count, s["wseed"])
        return obj, m
    if m == "setkv":
        k = (s["k"] + s["ints"][5]) % pd          # uniform over the directions of the shape
        rng = (kvs[k][0], kvs[k][-1])
        new = kv_from_ints(degs[k], szs[k], s["ints"], rng)
        if pd == 1:
            obj.knotvector = new
        else:
            setattr(obj, "knotvector_" + "uvw"[k], new)
        st_["ledger"] = []
        return obj, m
    if m == "delta":
        n = s["n"] if pd < 3 else min(s["n"], 4)
        if pd > 1 and s["ints"][0] % 2:
            # a different density per direction; what was set must be what is reported
            ns = [n + ((s["ints"][1 + k] + k) % 3) for k in range(pd)]
            obj.delta = tuple(1.0 / x for x in ns)
            ctx.check(_deep_eq(list(obj.delta), [1.0 / x for x in ns]), "delta-readback", "delta set to %r reads back as %r" % ([1.0 / x for x in ns], list(obj.delta)))
            ctx.check(list(obj.sample_size) == ns, "delta-readback", "delta = 1/%r gives sample_size %r" % (ns, list(obj.sample_size)))
            for k, nm in enumerate(("u", "v", "w")[:pd]):
                ctx.check(_num_eq(getattr(obj, "delta_" + nm), 1.0 / ns[k]) and getattr(obj, "sample_size_" + nm) == ns[k], "delta-readback",
                          "delta_%s / sample_size_%s = %r / %r after delta = 1/%r" % (nm, nm, getattr(obj, "delta_" + nm), getattr(obj, "sample_size_" + nm), ns))
        else:
            obj.delta = 1.0 / n
        return obj, m
    if m == "sample":
        n = s["n"] if pd < 3 else min(s["n"], 4)
        if pd == 1 and s["ints"][2] % 12 == 0:
            # a one-step change at a large sample size: the delta moves by less than 1e-7
            big = 3400 + s["ints"][3] % 500
            obj.sample_size = big
            _ = obj.evalpts
            obj.sample_size = big + 1
            ctx.check(len(obj.evalpts) == big + 1, "stale-evalpts", "sample_size %d -> %d but evalpts still has %d points" % (big, big + 1, len(obj.evalpts)))
            obj.sample_size = n
            return obj, m
        if pd > 1 and s["ints"][2] % 2:
            setattr(obj, "sample_size_" + "uvw"[(s["k"] + s["ints"][5]) % pd], n)          # the per-direction setter
        else:
            obj.sample_size = n
        return obj, m
    if m == "insert":
        k = (s["k"] + s["ints"][5]) % pd          # uniform over the directions of the shape
        if szs[k] >= 10:
            return obj, None
        pick = pick_insert(degs[k], kvs[k], szs[k], s["ins"], others=[o for j, o in enumerate(kvs) if j != k])
        if pick is None:
            return obj, None
        u, mult, r = pick
        params, nums = [None] * pd, [0] * pd
        params[k], nums[k] = u, r
        if s["ints"][0] % 2:
            operations.insert_knot(obj, params, nums)
        elif pd == 1:
            obj.insert_knot(u, num=r)
        elif pd == 2:
            obj.insert_knot(u=params[0], v=params[1], num_u=nums[0], num_v=nums[1])
        else:
            obj.insert_knot(u=params[0], v=params[1], w=params[2], num_u=nums[0], num_v=nums[1], num_w=nums[2])
        st_["ledger"].append([k, u, r])
        return obj, m
    if m == "remove":
        if not st_["ledger"]:
            return obj, None
        k, u, r = st_["ledger"].pop()
        params, nums = [None] * pd, [0] * pd
        params[k], nums[k] = u, 1
        if r > 1:
            st_["ledger"].append([k, u, r - 1])
        if s["ints"][0] % 2 or pd > 1:
            operations.remove_knot(obj, params, nums)
        else:
            obj.remove_knot(u, num=1)
        return obj, m
    if m == "refine":
        k = (s["k"] + s["ints"][5]) % pd          # uniform over the directions of the shape
        if szs[k] > 5 or (pd == 3 and count > 60):
            return obj, None
        dens = [0] * pd
        dens[k] = 1
        operations.refine_knotvector(obj, dens)
        st_["ledger"] = []
        return obj, m
    if m == "reverse":
        if pd != 1:
            return obj, None
        obj.reverse()
        st_["ledger"] = []
        return obj, m
    if m == "transpose":
        if pd != 2:
            return obj, None
        if s["ints"][0] % 2:
            obj.transpose()
        else:
            operations.transpose(obj, inplace=True)
        st_["ledger"] = [[1 - k, u, r] for k, u, r in st_["ledger"]]
        return obj, m
    if m == "flip":
        if pd != 2:
            return obj, None
        operations.flip(obj, inplace=True)
        return obj, m
    if m == "translate":
        operations.translate(obj, s["vec"][:dim], inplace=True)
        return obj, m
    if m == "rotate":
        operations.rotate(obj, s["angle"], axis=s["k"], inplace=True)
        return obj, m
    if m == "scale":
        operations.scale(obj, s["mult"], inplace=True)
        return obj, m
    if m == "redefine":
        # documented order: degree -> control points -> knot vector
        newdegs = [1 + (s["ints"][i] % 3) for i in range(pd)]
        newszs = [newdegs[i] + 1 + (s["ints"][i + 3] % 3) for i in range(pd)]
        cnt = 1
        for x in newszs:
            cnt *= x
        P = _pts(cnt, dim, s["seed"])
        pts = build.homogeneous(P, _wts(cnt, s["wseed"])) if obj.rational else P
        if pd == 1:
            obj.degree = newdegs[0]
        else:
            for i in range(pd):
                setattr(obj, "degree_" + "uvw"[i], newdegs[i])
        obj.set_ctrlpts(pts, *newszs)
        for i in range(pd):
            kv = kv_from_ints(newdegs[i], newszs[i], s["ints"][i:] + s["ints"][:i], (kvs[i][0], kvs[i][-1]))
            if pd == 1:
                obj.knotvector = kv
            else:
                setattr(obj, "knotvector_" + "uvw"[i], kv)
        st_["ledger"] = []
        return obj, m
    if m == "copy_edit":
        # deep copies are independent: edit the copy, the original must be unaffected, and vice versa
        c = copy.deepcopy(obj)
        views = [v for v in VIEWS if v != "tess"]
        before = {v: read_view(obj, v) for v in s["views"] if v != "tess"}
        c.ctrlpts = _pts(count, dim, s["seed"])
        compare_views(ctx, c, norm, s["views"] or views[:3], "edited deep copy", "copy-stale")
        for v, val in before.items():
            ctx.check(_deep_eq(read_view(obj, v), val), "copy-not-independent", "editing a deep copy changed view '%s' of the original" % v)
        compare_views(ctx, obj, norm, [v for v in (s["views"] or views[:3])], "original after its deep copy was edited", "copy-not-independent")
        if s["ints"][1] % 2:
            # continue the history on the copy, then the original must stay put: checked by the next copy_edit / final check
            st_["others"].append((obj, {v: read_view(obj, v) for v in ("ctrlpts", "evalpts", "bbox")}))
            return c, m
        return obj, m
    if m == "ops_copy":
        before = {v: read_view(obj, v) for v in ("ctrlpts", "evalpts")}
        which = s["ints"][2] % 4
        if which == 3:
            # another operation that returns a new instance: one more spatial dimension; the result is edited, the input is not
            r = operations.add_dimension(obj, offset=0.5)
            ctx.check(r is not obj, "ops-copy-returned-input", "operations.add_dimension without inplace returned its input")
            r.delta = 0.2 if pd == 1 else tuple([0.2] * pd)
            pick_ = pick_insert(degs[0], kvs[0], szs[0], ["in", s["ints"][1], 0.5, 0])
            if pick_ is not None and szs[0] < 10:
                operations.insert_knot(r, [pick_[0]] + [None] * (pd - 1), [1] + [0] * (pd - 1))
            for v, val in before.items():
                ctx.check(_deep_eq(read_view(obj, v), val), "copy-not-independent", "editing the shape returned by add_dimension changed view '%s' of the input" % v)
            ctx.check(build.kvs_of(obj) == kvs and build.sizes_of(obj) == szs, "copy-not-independent", "editing the shape returned by add_dimension changed the definition of the input")
            return obj, m
        if which == 0:
            r, what = operations.translate(obj, s["vec"][:dim]), "translate"
        elif which == 1:
            ang = [360.0, 0.0, 90.0, -720.0][s["ints"][3] % 4]
            r, what = operations.rotate(obj, ang, axis=s["ints"][4] % 3), "rotate(%r)" % ang
        else:
            mult = [1.0, 2.0][s["ints"][3] % 2]
            r, what = operations.scale(obj, mult), "scale(%r)" % mult
        ctx.check(r is not obj, "ops-copy-returned-input", "operations.%s without inplace returned its input" % what)
        compare_views(ctx, r, norm, s["views"] or ["ctrlpts", "evalpts", "bbox"], "copy returned by %s" % what, "copy-stale")
        for v, val in before.items():
            ctx.check(_deep_eq(read_view(obj, v), val), "copy-not-independent", "%s without inplace changed view '%s' of the input" % (what, v))
        # the returned shape is a copy: editing it leaves the input alone
        r.ctrlpts = _pts(count, dim, s["ints"][0] + 17)
        for v, val in before.items():
            ctx.check(_deep_eq(read_view(obj, v), val), "copy-not-independent", "editing the shape returned by %s (no inplace) changed view '%s' of the input" % (what, v))
        return obj, m
    if m == "evaluate_range":
        # an explicit sub-range evaluation replaces the sampled points; a later full evaluation must not keep the partial grid
        if pd == 1:
            a, b = obj.domain
            obj.evaluate(start=a, stop=a + (b - a) * 0.5)
        elif pd == 2:
            (a, b), (c_, d_) = obj.domain
            obj.evaluate(start_u=a, stop_u=a + (b - a) * 0.5, start_v=c_ + (d_ - c_) * 0.25, stop_v=d_)
        else:
            (a, b), (c_, d_), (e_, f_) = obj.domain
            obj.evaluate(start_u=a, stop_u=a + (b - a) * 0.5, start_v=c_ + (d_ - c_) * 0.25, stop_v=d_, start_w=e_, stop_w=e_ + (f_ - e_) * 0.75)
        if pd == 2 and s["n"] % 2:
            # the mesh is a mesh of the whole surface, whatever part of it was sampled last
            got, want = read_view(obj, "tess"), read_view(fresh(obj, norm), "tess")
            ctx.check(_deep_eq(got, want), "stale-tess", "tessellation right after a partial evaluation differs from the mesh of a freshly built surface")
        if s["k"] == 1:
            # re-assigning the sampling density the shape already has asks for a new sampling, like any assignment of it
            obj.delta = obj.delta
        elif s["k"] == 2:
            if pd == 1:
                obj.sample_size = obj.sample_size
            else:
                obj.sample_size_u = obj.sample_size_u
        else:
            obj.evaluate()
        return obj, m
    if m == "convert_side":
        # a converted twin (B-spline <-> NURBS) is made and edited on the side; the history continues on the source
        from geomdl import convert
        if obj.rational:
            if any(w != 1.0 for w in obj.weights):
                return obj, None
            twin = convert.nurbs_to_bspline(obj)
        else:
            twin = convert.bspline_to_nurbs(obj)
        if twin is obj:
            return obj, None
        twin.ctrlpts = _pts(count, dim, s["ints"][1] + 5)
        return obj, m
    if m == "refused":
        # an edit the library refuses: whatever it leaves behind is still a definition whose views are consistent
        which = s["ints"][0] % 4
        try:
            if which == 0:
                bad = list(kvs[0])
                bad[degs[0]], bad[-degs[0] - 1] = bad[-degs[0] - 1], bad[degs[0]]          # decreasing knot vector
                if pd == 1:
                    obj.knotvector = bad
                else:
                    obj.knotvector_u = bad
            elif which == 1 and obj.rational:
                obj.set_ctrlpts([q[:3 if pd == 3 else 2] for q in build.stored_points(obj)], *szs)          # too few coordinates for a rational shape
            elif which == 2 and pd >= 2:
                k_ = s["k"] % pd
                small = list(szs)
                small[k_] = degs[k_]          # one point too few for the degree of that direction
                cnt_ = 1
                for x in small:
                    cnt_ *= x
                obj.set_ctrlpts(build.stored_points(obj)[:cnt_], *small)
            else:
                obj.delta = 1.5 if pd == 1 else tuple([1.5] * pd)
            return obj, None          # accepted: nothing to say
        except Exception:
            pass
        try:
            fresh(obj, norm)
        except Exception as e:
            ctx.fail("inconsistent-after-refused-edit", "after a refused edit (%d) the stored definition cannot even be rebuilt: %s: %s (sizes %r, %d points)" % (
                which, type(e).__name__, e, build.sizes_of(obj), len(build.stored_points(obj))))
        return obj, m
    if m == "degree":
        # degree elevation / reduction of a one-segment (Bezier) curve through the operations layer
        if pd != 1 or szs[0] != degs[0] + 1 or degs[0] >= 6:
            return obj, None
        operations.degree_operations(obj, [-1 if (s["ints"][0] % 3 == 0 and degs[0] >= 2) else 1 + s["ints"][1] % 2])
        st_["ledger"] = []
        return obj, m
    return obj, None


def check_object(case, ctx):
    d = case["defn"]
    obj = build.make(d)
    norm = d["normalize"]
    st_ = {"ledger": [], "norm": norm, "others": []}
    if d["kind"] == "surface" and d["dim"] == 3 and len(d["P"]) % 3 == 1:
        # the trim-aware tessellation component; without trims it produces the mesh of the default component, which the freshly
        # built objects use
        obj.tessellator = tessellate.TrimTessellate()
        ctx.label("trim-tessellator")
    for v in case["first_views"]:
        read_view(obj, v)
    read_before = set(case["first_views"])
    rmr = set()
    nmut = 0
    seq = []
    for i, s in enumerate(case["steps"]):
        obj, applied = apply_mutator(obj, s, st_, ctx)
        if applied:
            nmut += 1
            seq.append(applied)
        views = list(s["views"])
        if views:
            compare_views(ctx, obj, norm, views, "after %r (kind %s%s)" % (seq, d["kind"], ", rational" if d["rational"] else ""))
        if applied:
            for v in views:
                if v in read_before:
                    rmr.add((applied, v))
        read_before |= set(views)
    # final: every view
    compare_views(ctx, obj, norm, VIEWS, "at the end of %r (kind %s%s)" % (seq, d["kind"], ", rational" if d["rational"] else ""))
    for o, snap in st_["others"]:
        for v, val in snap.items():
            ctx.check(_deep_eq(read_view(o, v), val), "copy-not-independent", "the original changed (view '%s') while the history continued on its deep copy" % v)
    ctx.nt(bool(rmr) and nmut >= 1, "read-mutate-read")
    ctx.label("kind:" + d["kind"])
    ctx.label("rational", d["rational"])
    for a, v in rmr:
        ctx.label("rmr:%s/%s" % (a, v))


# ------------------------------------------------------------------------------------------------ containers
CVIEWS = ["evalpts", "bbox", "tess", "delta"]


@st.composite
def _cstep(draw):
    m = draw(st.sampled_from(["add", "delta", "sample", "edit_element", "translate", "copy_add", "noop", "ops_copy", "delta_dir", "sample_dir", "tessellator", "edit_handle"]))
    return {"m": m, "views": draw(st.lists(st.sampled_from(CVIEWS + ["tess", "tess"]), min_size=0, max_size=3, unique=True)),
            "n": draw(st.integers(3, 6)), "seed": draw(st.integers(0, 10 ** 6)), "i": draw(st.integers(0, 7)),
            "vec": [draw(st.integers(-16, 16)) / 8.0 for _ in range(3)]}


@st.composite
def _cont_cases(draw, tier):
    kind = draw(st.sampled_from(["curve", "surface", "surface", "volume"]))
    dim = draw(st.sampled_from([2, 3])) if kind == "curve" else 3
    shapes = [draw(gen.spline(kinds=(kind,), dims=(dim,), max_p=2, max_extra=2, vol_max_p=1, vol_max_extra=1)) for _ in range(4)]
    return {"shapes": shapes, "start": draw(st.integers(1, 2)), "first_views": draw(st.lists(st.sampled_from(CVIEWS + ["tess", "tess"]), max_size=3, unique=True)),
            "steps": [draw(_cstep()) for _ in range(draw(st.integers(2, 8 if tier == "thorough" else 5)))]}


def read_cview(cont, view):
    if view == "evalpts":
        return [list(p) for p in cont.evalpts]
    if view == "bbox":
        return [list(x) for x in cont.bbox]
    if view == "delta":
        dl = cont.delta
        return [dl] if isinstance(dl, float) else list(dl)
    if view == "tess":
        if cont.pdimension != 2:
            return None
        cont.tessellate()
        return [[v.id, list(v.uv), list(v.data)] for v in cont.vertices], [list(f.data) for f in cont.faces]
    raise ValueError(view)


def fresh_container(cont, delta=None):
    cls = cont.__class__
    elems = [fresh(e, True) for e in cont]
    new = cls(*elems)
    new.delta = cont.delta if delta is None else (delta[0] if cont.pdimension == 1 else list(delta))
    return new


def check_container(case, ctx):
    kind = case["shapes"][0]["kind"]
    cls = {"curve": multi.CurveContainer, "surface": multi.SurfaceContainer, "volume": multi.VolumeContainer}[kind]
    pool = [build.make(d) for d in case["shapes"]]
    cont = build.container(cls, pool[:case["start"]], sum(len(d_["P"]) for d_ in case["shapes"]) + case["start"])          # filled in one of the documented ways
    nxt = case["start"]
    ctx.check(len(cont) == nxt, "container-members",
              "a container filled with %d shapes holds %d elements" % (nxt, len(cont)))
    cont.delta = 0.25
    model = [0.25] * cont.pdimension          # the densities the caller asked for, direction by direction
    # model of the recorded finding: a cached container view read before an element was edited behind its back
    cached = set()
    dirty = set()

    def do_read(views, what):
        fr = fresh_container(cont, model)
        now = [cont.delta] if isinstance(cont.delta, float) else list(cont.delta)
        ctx.check(now == model, "container-delta-not-as-set", "%s: the container reports delta %r, the setters were given %r" % (what, now, model))
        for v in views:
            if v in dirty:
                ctx.label("class:container-cache-vs-element-edit")
                if ctx.known(SLUG_CONT):
                    ctx.label("excluded:" + SLUG_CONT)
                    continue
            got = read_cview(cont, v)
            want = read_cview(fr, v)
            ctx.check(_deep_eq(got, want), "container-stale-" + v if v not in dirty else "container-stale-after-element-edit-" + v,
                      "%s: container view '%s' differs from a freshly built container (got %s..., fresh %s...)" % (what, v, repr(got)[:140], repr(want)[:140]))
            if v == "evalpts":
                # the aggregate is what its members report at the container's density, one after the other
                exp = []
                for e in cont:
                    fe = fresh(e, True)
                    fe.delta = cont.delta
                    exp += [list(q) for q in fe.evalpts]
                ctx.check(_deep_eq(got, exp), "container-evalpts-not-the-members-points",
                          "%s: container evalpts (%d points) is not the concatenation of its %d members' points at delta %r (%d points)" % (what, len(got), len(cont), cont.delta, len(exp)))
            if v in ("evalpts", "tess"):
                cached.add(v)

    do_read(case["first_views"], "initial read")
    seq = []
    rmr = False
    for s in case["steps"]:
        m = s["m"]
        if m == "add":
            if nxt < len(pool):
                cont.add(pool[nxt])
                nxt += 1
                seq.append(m)
                cached.clear()
                dirty.clear()
        elif m == "delta":
            cont.delta = 1.0 / s["n"]
            model = [1.0 / s["n"]] * cont.pdimension
            seq.append(m)
            cached.clear()
            dirty.clear()
        elif m == "sample":
            cont.sample_size = s["n"]
            model = [cont.delta] if isinstance(cont.delta, float) else list(cont.delta)          # (how a count maps to a step is the library's business)
            seq.append(m)
            cached.clear()
            dirty.clear()
        elif m == "tessellator":
            # the documented way to choose the tessellation algorithm for all members (every member gets its own component)
            if cont.pdimension == 2:
                from geomdl import tessellate as _tsl
                cont.tessellator = _tsl.TriangularTessellate()
                seq.append(m)          # (no claim that this refreshes anything: cached / dirty bookkeeping stays as it is)
        elif m in ("delta_dir", "sample_dir"):
            # per-direction density setters of surface / volume containers
            if cont.pdimension > 1:
                k_ = s["i"] % cont.pdimension
                nm = ("delta_" if m == "delta_dir" else "sample_size_") + "uvw"[k_]
                # a step size is any number in (0, 1), not only 1/n
                # (every other time the new step keeps the integer part of 1/step of the direction and changes its rounded value)
                dval = 1.0 / s["n"] if s["seed"] % 2 else 1.0 / (int(1.0 / model[k_] + 1e-9) + 0.7)
                setattr(cont, nm, dval if m == "delta_dir" else s["n"])
                model[k_] = dval if m == "delta_dir" else list(cont.delta)[k_]          # the other directions keep what they had
                seq.append(m)
                cached.clear()
                dirty.clear()
        elif m == "edit_element":
            e = list(cont)[s["i"] % len(cont)]
            e.ctrlpts = _pts(len(e.ctrlpts), e.dimension, s["seed"])
            seq.append(m)
            dirty |= cached          # whatever the container cached is now out of date unless the container notices
        elif m == "edit_handle":
            # the caller edits a member through the handle it kept (the object it handed to the container): a knot inserted in the
            # middle of the first span.  Whatever the container holds stays a consistent shape (the fresh container is built from the
            # definitions its members report).
            h = pool[s["i"] % nxt]
            kv0, p0, n0 = build.kvs_of(h)[0], build.degrees_of(h)[0], build.sizes_of(h)[0]
            nxk = min(k for k in kv0 if k > kv0[p0])
            operations.insert_knot(h, [(kv0[p0] + nxk) / 2.0] + [None] * (h.pdimension - 1), [1] + [0] * (h.pdimension - 1))
            seq.append(m)
            dirty |= cached
        elif m == "translate":
            operations.translate(cont, s["vec"][:cont.dimension], inplace=True)
            seq.append(m)
            dirty |= cached
        elif m == "copy_add":
            before = {v: read_cview(cont, v) for v in ("bbox", "delta")}
            n_before = len(cont)
            c = copy.deepcopy(cont)
            if nxt < len(pool):
                c.add(pool[nxt])
                ctx.check(len(cont) == n_before and len(c) == n_before + 1, "copy-not-independent", "adding to a deep copy of a container changed the original's length")
            frc = fresh_container(c, model)
            for v in ("evalpts", "bbox"):
                ctx.check(_deep_eq(read_cview(c, v), read_cview(frc, v)), "copy-stale-" + v, "view '%s' of a deep-copied container differs from a fresh container" % v)
            for v, val in before.items():
                ctx.check(_deep_eq(read_cview(cont, v), val), "copy-not-independent", "working on a deep copy changed view '%s' of the original container" % v)
            seq.append(m)
        elif m == "ops_copy":
            r = operations.translate(cont, s["vec"][:cont.dimension])
            ctx.check(r is not cont, "ops-copy-returned-input", "operations.translate(container) without inplace returned its input")
            frc = fresh_container(r, model)
            for v in ("evalpts", "bbox"):
                ctx.check(_deep_eq(read_cview(r, v), read_cview(frc, v)), "copy-stale-" + v, "view '%s' of a translated container copy differs from a fresh container" % v)
            seq.append(m)
        if s["views"]:
            if any(v in cached for v in s["views"]) and m not in ("noop",):
                rmr = True
            do_read(s["views"], "after %r on a %s container of %d" % (seq, kind, len(cont)))
    do_read([v for v in CVIEWS], "at the end of %r" % (seq,))
    ctx.nt(rmr or len(seq) >= 2, "container-history")
    ctx.label("kind:" + kind)
    for x in set(seq):
        ctx.label("op:" + x)


SUBCHECKS = [
    SubCheck("object", _obj_cases, check_object, quick=450, thorough=1500, shards_quick=4,
             rule="non-trivial = history where some view was read, then a mutator was applied, then the same view was read again "
                  "(read-mutate-read); (mutator, view) pairs are labelled"),
    SubCheck("container", _cont_cases, check_container, quick=200, thorough=1000, shards_quick=2,
             rule="non-trivial = container history with a cached view re-read after a change, or >= 2 operations"),
]
