"""C04 - knot insertion never changes the shape (DESIGN.md section 5, C04)."""
import copy
from fractions import Fraction as F

from hypothesis import strategies as st

from geomdl import operations, helpers
from geomdl.exceptions import GeomdlException

from vp import gen, build, ref, shape
from vp.core import SubCheck

RULE = ("Cases: generated clamped curves/surfaces/volumes (rational or not, normalised or affine range) and histories of "
        "knot insertions (parameter inside a span or on an existing knot, count 1..degree-multiplicity, any subset "
        "of directions, function or method form); oracle = exact reference of the ORIGINAL definition evaluated on "
        "a lattice containing old knots, new knots, ends and span midpoints; exact knot-vector bookkeeping.")
ASSUMPTIONS = ["shape tolerance 1e-9 * exact magnitude scale", "knot vectors compared exactly (values are copied)"]


@st.composite
def ins_desc(draw):
    k = draw(st.sampled_from(["in", "in", "knot", "knot", "other", "near", "decimal", "decimal", "again", "within"]))
    return [k, draw(st.integers(0, 63)), draw(st.integers(1, 63)) / 64.0, draw(st.integers(0, 7))]


def pick_insert(p, kv, n, desc, others=(), again=()):
    """(u, s, r): an admissible insertion derived from the descriptor against the CURRENT knot vector.
    ``again``: parameters passed to earlier insertions in this direction (kind 'again' passes one of them once more,
    as the same float - the stored knot may differ from it in the last digits after the library's 18-decimal rounding)."""
    if desc[0] == "again" and again:
        u = again[desc[1] % len(again)]
        s = sum(1 for k in kv if abs(k - u) <= 1e-7)          # the library identifies knots up to 1e-7
        if kv[p] < u < kv[n] and 1 <= s < p:
            return u, s, 1 + desc[3] % (p - s)
    if desc[0] == "within":
        # a parameter the library identifies with an existing interior knot (closer than its 10e-8 tolerance) without being
        # bit-identical to it, e.g. 1 - 0.9 for the knot 0.1: it is that knot
        inner = sorted(set(k for k in kv[p + 1:n] if kv[p] < k < kv[n]))
        inner = [k for k in inner if sum(1 for x in kv if abs(x - k) <= 1e-7) < p and abs(k) < 4.0]
        if not inner:
            return None
        k0 = inner[desc[1] % len(inner)]
        u = k0 + (2.0 ** -25 if desc[3] % 2 else -2.0 ** -25)
        s = sum(1 for x in kv if abs(x - u) <= 1e-7)
        if u == k0 or not (1 <= s < p) or any(1e-7 < abs(x - u) < 1e-4 for x in kv):
            return None
        return u, s, 1 + desc[3] % (p - s)
    if desc[0] in ("decimal", "again"):
        # a parameter that is not a dyadic rational: a multiple of 1/7000 of the span width above the span start
        spans = [j for j in range(p, n) if kv[j] < kv[j + 1]]
        j = spans[0] if desc[1] % 2 == 0 else spans[desc[1] % len(spans)]
        u = kv[j] + (kv[j + 1] - kv[j]) * (1 + desc[3] * 8 + int(desc[2] * 64)) / 7000.0
        if not (kv[j] < u < kv[j + 1]) or min(abs(u - k) for k in kv) < 1e-4:
            return None
        return u, 0, 1 + desc[3] % p
    if desc[0] == "near":
        # 2^-18 (3.8e-6) next to an existing knot: a different knot for the library (its identification tolerance is 1e-7)
        u, kind = build.resolve_param(p, kv, n, ["near", desc[1], desc[2], 1 if desc[3] % 2 else -1, 2.0 ** -18], others=others)
    else:
        u, kind = build.resolve_param(p, kv, n, desc[:3], others=others)
    s = shape.multiplicity(kv, u)
    if kind in ("start", "end") or s >= p:
        u, kind = build.resolve_param(p, kv, n, ["in", desc[1], desc[2]])
        s = shape.multiplicity(kv, u)
        if kind != "in" or s >= p:
            return None
    if s == 0 and min(abs(u - k) for k in kv) < (2.0 ** -19 if kind == "near" else 1e-4):
        # the library identifies knots closer than 1e-7 (find_multiplicity tolerance); histories that keep
        # subdividing the same span would drift into that band, which is outside the property's input domain
        return None
    r = 1 + desc[3] % (p - s)
    return u, s, r


@st.composite
def _insert_cases(draw, tier):
    big = tier == "thorough"
    d = draw(gen.spline(wspread=True, ranges=("far", "tiny"), max_p=5 if big else 4, max_extra=5 if big else 3, affine_range="maybe", normalize="maybe",
                        vol_max_p=3, vol_max_extra=2, long=True))
    pdim = len(d["degree"])
    nops = draw(st.integers(1, 8 if big else 4))
    if d["kind"] == "volume":
        nops = min(nops, 3)
    ops = []
    for _ in range(nops):
        dirs = [draw(st.one_of(st.none(), ins_desc())) for _ in range(pdim)]
        if all(x is None for x in dirs):
            dirs[draw(st.integers(0, pdim - 1))] = draw(ins_desc())
        ops.append({"dirs": dirs, "form": draw(st.sampled_from(["ops", "method", "method-defaults", "method-nocheck"]))})
    if not d["normalize"] and draw(st.integers(0, 2)) == 0:
        # the documented ``precision`` keyword together with normalize_kv=False: nothing is normalised, so nothing is rounded
        d["precision"] = draw(st.sampled_from([3, 4, 6]))
    return {"defn": d, "ops": ops, "read_evalpts": draw(st.booleans()), "fork": draw(st.integers(0, 3)) == 0}


def _do_insert(obj, params, nums, form):
    pdim = obj.pdimension
    if form == "ops":
        operations.insert_knot(obj, list(params), list(nums))
    elif form == "method-defaults":
        # unused directions are left out and a count of one is left to its documented default
        kw = {}
        for nm, u, r in zip("uvw", params, nums):
            if u is not None:
                if pdim > 1:
                    kw[nm] = u
                if r != 1:
                    kw["num" if pdim == 1 else "num_" + nm] = r
        if pdim == 1:
            obj.insert_knot(params[0], **kw)
        else:
            obj.insert_knot(**kw)
    elif form == "method-nocheck":
        # the caller vouches for the counts (documented switch check_r=False); admissible counts behave as with the check
        if pdim == 1:
            obj.insert_knot(params[0], num=nums[0], check_r=False)
        elif pdim == 2:
            obj.insert_knot(u=params[0], v=params[1], num_u=nums[0], num_v=nums[1], check_r=False)
        else:
            obj.insert_knot(u=params[0], v=params[1], w=params[2], num_u=nums[0], num_v=nums[1], num_w=nums[2], check_r=False)
    elif pdim == 1:
        obj.insert_knot(params[0], num=nums[0])
    elif pdim == 2:
        obj.insert_knot(u=params[0], v=params[1], num_u=nums[0], num_v=nums[1])
    else:
        obj.insert_knot(u=params[0], v=params[1], w=params[2], num_u=nums[0], num_v=nums[1], num_w=nums[2])


def check_insert(case, ctx):
    d = case["defn"]
    if d.get("precision"):
        obj = build.make(d, precision=d["precision"])
    elif len(d["P"]) % 4 == 1 and not build.tiny_range(d):
        # the shape may have been created with the documented alternative span search (used whenever it is evaluated)
        obj = build.make(d, find_span_func=helpers.find_span_binsearch)
        ctx.label("binary-span-search")
    else:
        obj = build.make(d)
    ctx.label("precision-keyword-without-normalisation", bool(d.get("precision")))
    R = build.exact_from(d, obj)
    pdim = len(d["degree"])
    degs = d["degree"]
    if case["read_evalpts"]:
        obj.delta = 0.25
        _ = obj.evalpts
        if obj.rational:
            _ = obj.ctrlpts, obj.weights          # populate the unweighted views before the net grows
    source = None
    if case.get("fork"):
        # the insertions are made on a deep copy; the object it was copied from keeps its net and its views
        source, obj = obj, copy.deepcopy(obj)
        src_def = build.snapshot(source)
        src_views = ([list(q) for q in source.ctrlpts], list(source.weights) if source.rational else None)
        ctx.label("insertions-on-a-deep-copy")
    inserted = [[] for _ in range(pdim)]
    done = 0
    onknot = multi = rge2 = False
    for op in case["ops"]:
        kvs = build.kvs_of(obj)
        szs = build.sizes_of(obj)
        params, nums = [None] * pdim, [0] * pdim
        for k, desc in enumerate(op["dirs"]):
            if desc is None:
                continue
            pick = pick_insert(degs[k], kvs[k], szs[k], desc, others=[o for j, o in enumerate(kvs) if j != k], again=inserted[k])
            if pick is None:
                continue
            u, s, r = pick
            params[k], nums[k] = u, r
            onknot = onknot or s >= 1
            rge2 = rge2 or r >= 2
            ctx.label("non-dyadic-parameter", desc[0] in ("decimal", "again"))
            ctx.label("same-parameter-passed-again", desc[0] == "again" and s >= 1)
            ctx.label("param-is-knot-of-other-direction", desc[0] == "other" and any(u in o for j, o in enumerate(kvs) if j != k))
        if all(x is None for x in params):
            continue
        multi = multi or sum(1 for x in params if x is not None) >= 2
        _do_insert(obj, params, nums, op["form"])
        done += 1
        nkvs = build.kvs_of(obj)
        nszs = build.sizes_of(obj)
        for k in range(pdim):
            if params[k] is None:
                ctx.check(nkvs[k] == kvs[k] and nszs[k] == szs[k], "other-direction-changed",
                          "insertion in %r changed direction %d: kv %r -> %r, size %d -> %d" % (params, k, kvs[k], nkvs[k], szs[k], nszs[k]))
            else:
                near_ = [x for x in kvs[k] if abs(x - params[k]) <= 1e-7]
                stored_ = min(near_, key=lambda x: abs(x - params[k])) if near_ else params[k]          # a parameter identified with a knot is that knot
                ctx.label("parameter-identified-with-a-knot-by-tolerance", bool(near_) and stored_ != params[k])
                want = sorted(kvs[k] + [stored_] * nums[k])
                ctx.check(shape.kv_close(nkvs[k], want), "knot-vector",
                          "after inserting %r x%d (dir %d) the knot vector is %r, expected %r" % (params[k], nums[k], k, nkvs[k], want))
                ctx.check(nszs[k] == szs[k] + nums[k], "net-size",
                          "after inserting %r x%d (dir %d) the size is %d, expected %d" % (params[k], nums[k], k, nszs[k], szs[k] + nums[k]))
                inserted[k].append(params[k])
        total = 1
        for s_ in nszs:
            total *= s_
        ctx.check(len(build.stored_points(obj)) == total, "net-count", "control net has %d points for sizes %r" % (len(build.stored_points(obj)), nszs))
        ctx.check(build.degrees_of(obj) == degs, "degree-changed", "degrees changed to %r" % build.degrees_of(obj))
        if source is not None and done % 2:
            now = ([list(q) for q in source.ctrlpts], list(source.weights) if source.rational else None)
            ctx.check(now == src_views and build.snapshot(source) == src_def, "copy-source-changed",
                      "after an insertion into a deep copy the source reports %d control points (%d before)" % (len(now[0]), len(src_views[0])))
        if obj.rational:
            # the control net grew: the unweighted points and the weights grow with it
            if done % 2:
                Wv = list(obj.weights)              # either view may be the first one read after the edit
                Pv = [list(q) for q in obj.ctrlpts]
            else:
                Pv = [list(q) for q in obj.ctrlpts]
                Wv = list(obj.weights)
            ctx.check(len(Pv) == total and len(Wv) == total, "net-views-size", "after the insertion ctrlpts has %d and weights %d entries for a net of %d" % (len(Pv), len(Wv), total))
            hom = build.homogeneous(Pv, Wv)
            ctx.check(all(all(abs(a - b) <= 1e-9 * (1 + abs(b)) for a, b in zip(x, y)) for x, y in zip(hom, build.stored_points(obj))), "net-views",
                      "after the insertion ctrlpts * weights differs from the stored homogeneous net")
        if source is not None and not done % 2:
            now = ([list(q) for q in source.ctrlpts], list(source.weights) if source.rational else None)
            ctx.check(now == src_views and build.snapshot(source) == src_def, "copy-source-changed",
                      "after an insertion into a deep copy the source reports %d control points (%d before)" % (len(now[0]), len(src_views[0])))
        lat = shape.obj_lattice(obj, extras=inserted)
        shape.same_shape(ctx, R, obj, lat, "shape-changed",
                         "after %d insertion call(s), last %r x%r via %s" % (done, params, nums, op["form"]))
        if case["read_evalpts"] and pdim < 3:
            # the sampled grid, if it was populated before, must describe the same (unchanged) shape
            pts = obj.evalpts
            n = obj.sample_size if pdim == 1 else obj.sample_size[0]
            ctx.check(len(pts) == n ** pdim, "evalpts-size-after-insert", "evalpts has %d points for sample size %r" % (len(pts), n))
    ctx.nt(onknot, "on-knot-insertion")
    ctx.nt(rge2, "count>=2")
    ctx.nt(build.varied_weights(d), "rational-varied")
    ctx.nt(d["kind"] == "volume", "volume")
    ctx.nt(multi, ">=2-directions")
    ctx.nt(done >= 3, "history>=3")
    ctx.label("kind:" + d["kind"])
    ctx.label("affine", bool(d.get("affine")))
    ctx.label("no-op-case", done == 0)


# ------------------------------------------------------------------------------------------------ rejection
@st.composite
def _reject_cases(draw, tier):
    d = draw(gen.spline(max_p=4, max_extra=3, affine_range="maybe", normalize="maybe", vol_max_p=2, vol_max_extra=2))
    pdim = len(d["degree"])
    return {"defn": d, "dir": draw(st.integers(0, pdim - 1)),
            "where": draw(st.one_of(gen.param_desc(), gen.param_desc(), st.just(["start"]), st.just(["end"]))),
            "over": draw(st.integers(1, 3)), "form": draw(st.sampled_from(["ops", "method"])),
            "read": draw(st.booleans())}


def check_reject(case, ctx):
    d = case["defn"]
    obj = build.make(d)
    pdim = len(d["degree"])
    k = case["dir"]
    kvs, szs = build.kvs_of(obj), build.sizes_of(obj)
    u, kind = build.resolve_param(d["degree"][k], kvs[k], szs[k], case["where"])
    s = shape.multiplicity(kvs[k], u)
    r = max(d["degree"][k] - s, 0) + case["over"]
    if case["read"]:
        obj.delta = 0.25
        _ = obj.evalpts
    before = build.snapshot(obj)
    lat = shape.obj_lattice(obj)
    pts_before = shape.eval_points(obj, lat)
    params, nums = [None] * pdim, [0] * pdim
    params[k], nums[k] = u, r
    ctx.nt(True, "over-multiplicity")
    ctx.label("at-domain-end", kind in ("start", "end"))
    ctx.label("form:" + case["form"])
    if case["form"] == "ops":
        raised = False
        try:
            operations.insert_knot(obj, params, nums)
        except GeomdlException:
            raised = True
        ctx.check(raised, "not-rejected", "operations.insert_knot(%r, %r) with multiplicity %d, degree %d was accepted" % (params, nums, s, d["degree"][k]))
    else:
        _do_insert(obj, params, nums, "method")
    ctx.check(build.snapshot(obj) == before, "rejected-but-modified",
              "rejected insertion %r x%r (multiplicity %d, degree %d) modified the object" % (params, nums, s, d["degree"][k]))
    ctx.check(shape.pts_close(shape.eval_points(obj, lat), pts_before, 1e-12), "rejected-but-moved", "evaluation changed after a rejected insertion")


# ------------------------------------------------------------------------------------------------ helper level
@st.composite
def _helper_cases(draw, tier):
    d = draw(gen.spline(ranges=("far", "tiny"), kinds=("curve",), max_p=6 if tier == "thorough" else 4, max_extra=5, affine_range="maybe",
                        normalize=False))
    return {"defn": d, "ins": draw(ins_desc()), "rows": draw(st.integers(0, 3))}


def check_helper(case, ctx):
    d = case["defn"]
    p, kv, n = d["degree"][0], list(d["kv"][0]), d["size"][0]
    pick = pick_insert(p, kv, n, case["ins"])
    if pick is None:
        ctx.label("no-op-case")
        return
    u, s, r = pick
    # the helper is told multiplicity and span explicitly: both are the exact ones of the float u (a parameter 3e-8 away from a
    # knot is, at this level, a new knot; identifying it with its neighbour is the business of the operations layer)
    s = shape.multiplicity(kv, u)
    pts = build.homogeneous(d["P"], d["W"]) if d["rational"] else [list(q) for q in d["P"]]
    rows = case["rows"]
    if rows:
        # rows of points (the form used for surfaces/volumes): row j is the polygon shifted by j
        cp = [[[c + 0.5 * j for c in pt] for j in range(rows)] for pt in pts]
    else:
        cp = pts
    span = helpers.find_span_linear(p, kv, n, u)
    before = [list(map(list, row)) if rows else list(row) for row in cp]
    kv_arg = tuple(kv) if d.get("kv_tuple") else kv          # the helpers document list or tuple
    ctx.label("knot-vector-as-tuple", bool(d.get("kv_tuple")))
    new_cp = helpers.knot_insertion(p, kv_arg, cp, u, num=r, s=s, span=span)
    if helpers.find_multiplicity(u, kv) == s:
        # the documented call names only 'num': multiplicity and span are then found by the helper itself
        ctx.check(helpers.knot_insertion(p, kv_arg, cp, u, num=r) == new_cp, "helper-defaults",
                  "knot_insertion(..., num=%d) without s/span differs from the call with multiplicity %d and span %d" % (r, s, span))
    new_kv = list(helpers.knot_insertion_kv(kv_arg, u, span, r))
    ctx.nt(s >= 1, "on-knot-insertion")
    ctx.nt(r >= 2, "count>=2")
    ctx.nt(rows > 0, "rows")
    ctx.nt(build.varied_weights(d), "rational-varied")
    ctx.check(cp == before, "helper-input-modified", "knot_insertion modified its input control points")
    ctx.check(list(new_kv) == sorted(kv + [u] * r), "helper-knot-vector", "knot_insertion_kv gives %r, expected %r" % (new_kv, sorted(kv + [u] * r)))
    ctx.check(len(new_cp) == n + r, "helper-net-size", "knot_insertion returned %d points, expected %d" % (len(new_cp), n + r))
    lat = shape.lattice([p], [new_kv], [n + r], extras=[[u]], limit=9)
    for j in range(max(rows, 1)):
        old = ref.Spline([p], [kv], [n], [q[j] for q in cp] if rows else cp, d["rational"])
        new = ref.Spline([p], [new_kv], [n + r], [q[j] for q in new_cp] if rows else new_cp, d["rational"])
        for us in lat:
            a, sc = old.point(us)
            b, _ = new.point(us)
            ctx.check(all(abs(x - y) <= F(1, 10 ** 9) * sc for x, y in zip(a, b)), "helper-shape-changed",
                      "knot_insertion(u=%r, num=%d): point at %r moved from %r to %r" % (u, r, float(us[0]), ref.fl(a), ref.fl(b)))


SUBCHECKS = [
    SubCheck("insert", _insert_cases, check_insert, quick=350, thorough=1500, shards_quick=2,
             rule="non-trivial = on-knot insertion, or count >= 2, or rational with varied weights, or volume, or >= 2 "
                  "directions in one call, or history of >= 3 insertion calls"),
    SubCheck("reject", _reject_cases, check_reject, quick=300, thorough=1200,
             rule="every case is a single-direction over-multiplicity insertion (incl. at a domain end)"),
    SubCheck("helper", _helper_cases, check_helper, quick=400, thorough=2000,
             rule="helper-level knot_insertion/knot_insertion_kv on polygons and rows of points; non-trivial as 'insert' or rows"),
]
