"""C13 - one control-net layout convention across all modules (DESIGN.md section 5, C13)."""
import copy
from fractions import Fraction as F

from hypothesis import strategies as st

from geomdl import compatibility, construct, control_points, operations, sweeping

from vp import gen, build, ref, shape
from vp.core import SubCheck

RULE = ("Cases: generated surfaces with nu != nv and volumes with pairwise different sizes, pairwise distinct control "
        "points, degrees 1..3, rational or not; oracle = the documented flat index v + nv*(u + nu*w) applied to the "
        "generated net, compared with every module that addresses control points; extraction followed by construction "
        "returns the original definition; corner parameters evaluate to corner control points.")
ASSUMPTIONS = ["control points are copied, so definitions are compared to 1e-12 relative"]


def _eq_pts(a, b):
    return len(a) == len(b) and all(len(p) == len(q) and all(abs(x - y) <= 1e-12 * (1 + abs(y)) for x, y in zip(p, q)) for p, q in zip(a, b))


def _same_def(ctx, a, d_snapshot, tag, what):
    s = build.snapshot(a)
    ctx.check(s["degree"] == d_snapshot["degree"], tag, "%s: degrees %r, expected %r" % (what, s["degree"], d_snapshot["degree"]))
    ctx.check(s["size"] == d_snapshot["size"], tag, "%s: sizes %r, expected %r" % (what, s["size"], d_snapshot["size"]))
    ctx.check(all(shape.kv_close(x, y) for x, y in zip(s["kv"], d_snapshot["kv"])) and len(s["kv"]) == len(d_snapshot["kv"]), tag,
              "%s: knot vectors %r, expected %r" % (what, s["kv"], d_snapshot["kv"]))
    ctx.check(s["rational"] == d_snapshot["rational"], tag, "%s: rational %r" % (what, s["rational"]))
    ctx.check(_eq_pts(s["pts"], d_snapshot["pts"]), tag, "%s: control net differs from the original (first rows %r vs %r)" % (what, s["pts"][:3], d_snapshot["pts"][:3]))


def _nt(ctx, d):
    szs = d["size"]
    ctx.nt(len(set(szs)) == len(szs), "all-sizes-different")
    ctx.label("rational", d["rational"])
    ctx.label("varied-weights", build.varied_weights(d))
    ctx.label("degrees-differ", len(set(d["degree"])) > 1)


# ------------------------------------------------------------------------------------------------ surfaces
@st.composite
def _surf_cases(draw, tier):
    d = draw(gen.spline(kinds=("surface",), max_p=3, max_extra=4 if tier == "thorough" else 3, different=True, distinct=True))
    return {"defn": d, "u": draw(st.integers(0, 63)), "v": draw(st.integers(0, 63)), "inplace": draw(st.booleans())}


def check_surface(case, ctx):
    d = case["defn"]
    obj = build.make(d)
    nu, nv = d["size"]
    _nt(ctx, d)
    stored = build.homogeneous(d["P"], d["W"]) if d["rational"] else [list(p) for p in d["P"]]
    R = build.exact_from(d, obj)
    # 2-D view
    g = obj.ctrlpts2d
    ctx.check(len(g) == nu and all(len(r) == nv for r in g), "ctrlpts2d-shape", "ctrlpts2d has shape %d x %r" % (len(g), [len(r) for r in g]))
    for u in range(nu):
        for v in range(nv):
            ctx.check(_eq_pts([g[u][v]], [stored[v + nv * u]]), "ctrlpts2d-layout", "ctrlpts2d[%d][%d] = %r, flat[v + nv*u] = %r" % (u, v, g[u][v], stored[v + nv * u]))
    # corners tie the layout to the evaluator
    (a0, b0), (a1, b1) = [(float(a), float(b)) for a, b in R.domain()]
    for (pu, pv), (iu, iv) in (((a0, a1), (0, 0)), ((a0, b1), (0, nv - 1)), ((b0, a1), (nu - 1, 0)), ((b0, b1), (nu - 1, nv - 1))):
        got = obj.evaluate_single((pu, pv))
        want = d["P"][iv + nv * iu]
        ctx.check(_eq_pts([got], [want]), "corner-evaluation", "S(%r, %r) = %r but control point (%d,%d) is %r" % (pu, pv, got, iu, iv, want))
    # manager
    m = control_points.SurfaceManager(nu, nv)
    for u in range(nu):
        for v in range(nv):
            ctx.check(m.find_index(u, v) == v + nv * u, "manager-index", "SurfaceManager(%d,%d).find_index(%d,%d) = %r" % (nu, nv, u, v, m.find_index(u, v)))
            m.set_ctrlpt(list(stored[v + nv * u]), u, v)
    ctx.check(_eq_pts(list(m.ctrlpts), stored), "manager-layout", "points set through SurfaceManager differ from the flat net")
    iu, iv = case["u"] % nu, case["v"] % nv
    ctx.check(_eq_pts([m.get_ctrlpt(iu, iv)], [stored[iv + nv * iu]]), "manager-get", "get_ctrlpt(%d,%d) = %r" % (iu, iv, m.get_ctrlpt(iu, iv)))
    for (cu, cv) in ((0, 0), (nu - 1, nv - 1), (nu - 1, 0), (0, nv - 1)):
        gp = m.get_ctrlpt(cu, cv)
        ctx.check(gp is not None and _eq_pts([gp], [stored[cv + nv * cu]]), "manager-get", "get_ctrlpt(%d,%d) = %r, the net has %r there" % (cu, cv, gp, stored[cv + nv * cu]))
    o2 = build.make(d)
    o2.set_ctrlpts(list(m.ctrlpts), nu, nv)
    ctx.check(build.snapshot(o2)["pts"] == build.snapshot(obj)["pts"], "manager-roundtrip", "surface built from the manager's points differs")
    # flips
    urow = compatibility.flip_ctrlpts(stored, nu, nv)
    ctx.check(len(urow) == nu * nv and all(_eq_pts([urow[u + nu * v]], [stored[v + nv * u]]) for u in range(nu) for v in range(nv)), "flip_ctrlpts",
              "flip_ctrlpts does not map flat[v + nv*u] to out[u + nu*v]")
    back = compatibility.flip_ctrlpts_u(urow, nu, nv)
    ctx.check(_eq_pts(back, stored), "flip-not-inverse", "flip_ctrlpts_u(flip_ctrlpts(x)) != x")
    ctx.check(_eq_pts(compatibility.flip_ctrlpts(compatibility.flip_ctrlpts_u(stored, nv, nu), nv, nu), stored), "flip-not-inverse", "flip_ctrlpts(flip_ctrlpts_u(x)) != x")
    t2 = compatibility.flip_ctrlpts2d([[list(p) for p in r] for r in g], nu, nv)
    ctx.check(len(t2) == nv and all(len(r) == nu for r in t2) and all(_eq_pts([t2[v][u]], [g[u][v]]) for u in range(nu) for v in range(nv)),
              "flip_ctrlpts2d", "flip_ctrlpts2d is not the transpose of the 2-D net")
    # one size given, the other left at its default: both are then detected from the array
    for kwf in ({"size_u": nu}, {"size_v": nv}):
        t4 = compatibility.flip_ctrlpts2d([[list(p) for p in r] for r in g], **kwf)
        ctx.check(len(t4) == nv and all(len(r) == nu for r in t4) and all(_eq_pts([t4[v][u]], [g[u][v]]) for u in range(nu) for v in range(nv)),
                  "flip_ctrlpts2d", "flip_ctrlpts2d(net, %r) is not the transpose of the %dx%d net (%d rows)" % (kwf, nu, nv, len(t4)))
    t3 = compatibility.flip_ctrlpts2d([[list(p) for p in r] for r in g])
    ctx.check(len(t3) == nv and all(_eq_pts([t3[v][u]], [g[u][v]]) for u in range(nu) for v in range(nv)), "flip_ctrlpts2d", "flip_ctrlpts2d (auto sizes) is not the transpose")
    # a refused net (sizes that do not fit the degrees) leaves the layout relations of whatever the surface then holds intact
    pu_, pv_ = d["degree"]
    if nu != nv and (nv < pu_ + 1 or nu < pv_ + 1):
        o4 = build.make(d)
        try:
            o4.set_ctrlpts([list(q) for q in stored], nv, nu)
            ctx.label("swapped-sizes-accepted")
        except Exception:
            ctx.label("after-a-refused-net")
            su, sv = build.sizes_of(o4)
            g4 = o4.ctrlpts2d
            flat4 = build.stored_points(o4)
            ctx.check(len(flat4) == su * sv and len(g4) == su and all(len(r) == sv for r in g4) and
                      all(_eq_pts([g4[u][v]], [flat4[v + sv * u]]) for u in range(su) for v in range(sv)), "layout-after-refused-net",
                      "after a refused set_ctrlpts the surface reports sizes %r, %d stored points and a %dx%d grid view" % ([su, sv], len(flat4), len(g4), len(g4[0]) if g4 else 0))
    # the control point block the lookup reports for a parameter pair is a block of the same grid
    for us in shape.obj_lattice(obj, limit=3):
        blk = operations.find_ctrlpts(obj, float(us[0]), float(us[1]))
        su_, sv_ = R.spans(us)
        pu__, pv__ = d["degree"]
        ok_blk = len(blk) == pu__ + 1 and all(len(r_) == pv__ + 1 for r_ in blk) and all(
            _eq_pts([blk[a_][b_]], [g[su_ - pu__ + a_][sv_ - pv__ + b_]]) for a_ in range(pu__ + 1) for b_ in range(pv__ + 1))
        ctx.check(ok_blk, "lookup-block", "find_ctrlpts(%r, %r) is not the block [%d..%d] x [%d..%d] of ctrlpts2d" % (float(us[0]), float(us[1]), su_ - pu__, su_, sv_ - pv__, sv_))
    # transpose
    before = build.snapshot(obj)
    T = operations.transpose(obj, inplace=False)
    ctx.check(build.snapshot(obj) == before, "transpose-modified-input", "transpose(inplace=False) modified its input")
    ctx.check(build.degrees_of(T) == d["degree"][::-1] and build.sizes_of(T) == [nv, nu], "transpose-definition",
              "transposed degrees %r sizes %r" % (build.degrees_of(T), build.sizes_of(T)))
    kT = build.kvs_of(T)
    ko = build.kvs_of(obj)
    ctx.check(shape.kv_close(kT[0], ko[1]) and shape.kv_close(kT[1], ko[0]), "transpose-knots", "transposed knot vectors are not swapped")
    gT = T.ctrlpts2d
    ctx.check(all(_eq_pts([gT[v][u]], [g[u][v]]) for u in range(nu) for v in range(nv)), "transpose-net", "T.ctrlpts2d[v][u] != S.ctrlpts2d[u][v]")
    for us in shape.obj_lattice(obj, limit=4):
        r, sc = R.point(us)
        got = T.evaluate_single((float(us[1]), float(us[0])))
        ctx.check(ref.vec_close(got, r, sc), "transpose-evaluation", "T(v,u) = %r but S(u,v) = %r at (u,v) = %r" % (got, ref.fl(r), [float(x) for x in us]))
        got0 = T.derivatives(float(us[1]), float(us[0]), order=0)[0][0]          # the point read as the zeroth derivative
        ctx.check(ref.vec_close(got0, r, sc), "transpose-evaluation", "T.derivatives(v, u, 0)[0][0] = %r but S(u,v) = %r at (u,v) = %r" % (got0, ref.fl(r), [float(x) for x in us]))
    o3 = build.make(d)
    if case["u"] % 2:
        _ = o3.ctrlpts, (o3.weights if o3.rational else None), o3.ctrlpts2d          # the views were looked at before
    o3.transpose()
    ctx.check(build.snapshot(o3) == build.snapshot(T), "transpose-method", "Surface.transpose() differs from operations.transpose")
    ctx.check(_eq_pts([list(q) for q in o3.ctrlpts], [list(q) for q in T.ctrlpts]) and (not o3.rational or list(o3.weights) == list(T.weights))
              and all(_eq_pts([o3.ctrlpts2d[v][u]], [g[u][v]]) for u in range(nu) for v in range(nv)), "transpose-method-views",
              "after Surface.transpose() the control point views are not those of the transposed net")
    # the documented container form: every member is transposed / flipped like a single surface
    from geomdl import multi
    d_b = dict(d)
    d_b["P"] = [[c + 1.5 for c in q] for q in d["P"]]
    members = [build.make(d), build.make(d_b)]
    singles = [operations.transpose(m_) for m_ in members]
    singles_f = [operations.flip(m_) for m_ in members]
    cont = build.container(multi.SurfaceContainer, members, case["u"])
    Tc = operations.transpose(cont)
    ctx.check(len(Tc) == 2 and all(build.snapshot(a_) == build.snapshot(b_) for a_, b_ in zip(Tc, singles)), "transpose-container",
              "transpose(container of 2): members differ from the surfaces transposed one by one (sizes %r, expected %r)" % ([build.sizes_of(a_) for a_ in Tc], [build.sizes_of(b_) for b_ in singles]))
    Fc = operations.flip(cont)
    ctx.check(len(Fc) == 2 and all(build.snapshot(a_) == build.snapshot(b_) for a_, b_ in zip(Fc, singles_f)), "flip-container",
              "flip(container of 2): members differ from the surfaces flipped one by one")
    ctx.check(all(build.snapshot(m_) == s_ for m_, s_ in zip(members, [before, build.snapshot(build.make(d_b))])), "transpose-modified-input",
              "transpose / flip of a container (no inplace) modified its members")
    # flip
    Fl = operations.flip(obj, inplace=False)
    gF = Fl.ctrlpts2d
    ctx.check(build.snapshot(obj) == before, "flip-modified-input", "flip(inplace=False) modified its input")
    ctx.check(all(_eq_pts([gF[u][v]], [g[nu - 1 - u][nv - 1 - v]]) for u in range(nu) for v in range(nv)), "flip-net", "flip: P'[u][v] != P[nu-1-u][nv-1-v]")
    # extraction and construction
    ex = construct.extract_curves(obj)
    ctx.check(len(ex["u"]) == nv and len(ex["v"]) == nu, "extract-count", "extract_curves returned %d u-curves and %d v-curves for a %dx%d net" % (len(ex["u"]), len(ex["v"]), nu, nv))
    for v, c in enumerate(ex["u"]):
        ctx.check(_eq_pts(build.stored_points(c), [stored[v + nv * u] for u in range(nu)]) and c.degree == d["degree"][0] and shape.kv_close(list(c.knotvector), ko[0]),
                  "extract-u-curve", "u-curve %d is not the v=%d column of the net" % (v, v))
    for u, c in enumerate(ex["v"]):
        ctx.check(_eq_pts(build.stored_points(c), [stored[v + nv * u] for v in range(nv)]) and c.degree == d["degree"][1] and shape.kv_close(list(c.knotvector), ko[1]),
                  "extract-v-curve", "v-curve %d is not the u=%d row of the net" % (u, u))
    # the documented switches select the family of the same name
    sw = [("u", {"extract_v": False}), ("v", {"extract_u": False})][case["u"] % 2]
    ex1 = construct.extract_curves(obj, **sw[1])
    other = "v" if sw[0] == "u" else "u"
    ctx.check(len(ex1[sw[0]]) == len(ex[sw[0]]) and len(ex1[other]) == 0, "extract-switch",
              "extract_curves(%r) returned %d u-curves and %d v-curves" % (sw[1], len(ex1["u"]), len(ex1["v"])))
    for c1, c0 in zip(ex1[sw[0]], ex[sw[0]]):
        ctx.check(build.snapshot(c1) == build.snapshot(c0), "extract-switch", "extract_curves(%r): a %s-curve differs from the one extracted by default" % (sw[1], sw[0]))
    # curves that run along v (one per u index) are stacked along u, and vice versa
    s_u = construct.construct_surface("u", *ex["v"], degree=d["degree"][0], knotvector=list(ko[0]))
    _same_def(ctx, s_u, before, "construct-surface-u", "construct_surface('u', v-curves)")
    s_v = construct.construct_surface("v", *ex["u"], degree=d["degree"][1], knotvector=list(ko[1]))
    _same_def(ctx, s_v, before, "construct-surface-v", "construct_surface('v', u-curves)")


# ------------------------------------------------------------------------------------------------ volumes
@st.composite
def _vol_cases(draw, tier):
    d = draw(gen.spline(kinds=("volume",), max_p=3, max_extra=3, vol_max_p=3 if tier == "thorough" else 2, vol_max_extra=3,
                        different=True, distinct=True))
    return {"defn": d, "i": draw(st.integers(0, 10 ** 6))}


def check_volume(case, ctx):
    d = case["defn"]
    obj = build.make(d)
    nu, nv, nw = d["size"]
    _nt(ctx, d)
    stored = build.homogeneous(d["P"], d["W"]) if d["rational"] else [list(p) for p in d["P"]]
    R = build.exact_from(d, obj)
    before = build.snapshot(obj)

    def flat(u, v, w):
        return v + nv * (u + nu * w)
    dom = [(float(a), float(b)) for a, b in R.domain()]
    for cu in (0, 1):
        for cv in (0, 1):
            for cw in (0, 1):
                got = obj.evaluate_single((dom[0][cu], dom[1][cv], dom[2][cw]))
                want = d["P"][flat((nu - 1) * cu, (nv - 1) * cv, (nw - 1) * cw)]
                ctx.check(_eq_pts([got], [want]), "corner-evaluation", "V(corner %d%d%d) = %r but the corner control point is %r" % (cu, cv, cw, got, want))
    m = control_points.VolumeManager(nu, nv, nw)
    for w in range(nw):
        for u in range(nu):
            for v in range(nv):
                ctx.check(m.find_index(u, v, w) == flat(u, v, w), "manager-index", "VolumeManager(%d,%d,%d).find_index(%d,%d,%d) = %r, expected %d" % (nu, nv, nw, u, v, w, m.find_index(u, v, w), flat(u, v, w)))
                m.set_ctrlpt(list(stored[flat(u, v, w)]), u, v, w)
    ctx.check(_eq_pts(list(m.ctrlpts), stored), "manager-layout", "points set through VolumeManager differ from the flat net")
    i = case["i"]
    iu, iv, iw = i % nu, (i // 7) % nv, (i // 53) % nw
    ctx.check(_eq_pts([m.get_ctrlpt(iu, iv, iw)], [stored[flat(iu, iv, iw)]]), "manager-get", "get_ctrlpt(%d,%d,%d)" % (iu, iv, iw))
    gp = m.get_ctrlpt(nu - 1, nv - 1, nw - 1)
    ctx.check(gp is not None and _eq_pts([gp], [stored[-1]]), "manager-get", "get_ctrlpt of the last index = %r, the net ends with %r" % (gp, stored[-1]))
    c = control_points.CurveManager(nu)
    ctx.check([c.find_index(k) for k in range(nu)] == list(range(nu)), "manager-index", "CurveManager.find_index is not the identity")
    # extraction
    ex = construct.extract_surfaces(obj)
    ctx.check(len(ex["uv"]) == nw and len(ex["uw"]) == nv and len(ex["vw"]) == nu, "extract-count", "extract_surfaces counts %d/%d/%d" % (len(ex["uv"]), len(ex["uw"]), len(ex["vw"])))
    ko = build.kvs_of(obj)
    for w, s in enumerate(ex["uv"]):
        ok = build.sizes_of(s) == [nu, nv] and _eq_pts(build.stored_points(s), [stored[flat(u, v, w)] for u in range(nu) for v in range(nv)])
        ctx.check(ok and build.degrees_of(s) == [d["degree"][0], d["degree"][1]], "extract-uv", "uv-surface %d is not the w=%d layer" % (w, w))
    for v, s in enumerate(ex["uw"]):
        ok = build.sizes_of(s) == [nu, nw] and _eq_pts(build.stored_points(s), [stored[flat(u, v, w)] for u in range(nu) for w in range(nw)])
        ctx.check(ok and build.degrees_of(s) == [d["degree"][0], d["degree"][2]], "extract-uw", "uw-surface %d is not the v=%d layer" % (v, v))
    for u, s in enumerate(ex["vw"]):
        ok = build.sizes_of(s) == [nv, nw] and _eq_pts(build.stored_points(s), [stored[flat(u, v, w)] for v in range(nv) for w in range(nw)])
        ctx.check(ok and build.degrees_of(s) == [d["degree"][1], d["degree"][2]], "extract-vw", "vw-surface %d is not the u=%d layer" % (u, u))
    for key, direction, k in (("vw", "u", 0), ("uw", "v", 1), ("uv", "w", 2)):
        v2 = construct.construct_volume(direction, *ex[key], degree=d["degree"][k], knotvector=list(ko[k]))
        _same_def(ctx, v2, before, "construct-volume-" + direction, "construct_volume('%s', extract_surfaces(vol)['%s'])" % (direction, key))
    # boundary faces
    faces = construct.extract_isosurface(obj)
    ctx.check(len(faces) == 6, "isosurface-count", "extract_isosurface returned %d surfaces" % len(faces))
    specs = [(2, 0), (2, 1), (1, 0), (1, 1), (0, 0), (0, 1)]   # (fixed direction, end) for uv[0], uv[-1], uw[0], uw[-1], vw[0], vw[-1]
    for fsurf, (fixed, end) in zip(faces, specs):
        free = [k for k in range(3) if k != fixed]
        for a in (0.0, 0.5, 1.0):
            for b in (0.25, 1.0):
                prm = [None, None, None]
                prm[fixed] = dom[fixed][end]
                prm[free[0]] = dom[free[0]][0] + (dom[free[0]][1] - dom[free[0]][0]) * a
                prm[free[1]] = dom[free[1]][0] + (dom[free[1]][1] - dom[free[1]][0]) * b
                r, sc = R.point(prm)
                got = fsurf.evaluate_single((prm[free[0]], prm[free[1]]))
                ctx.check(ref.vec_close(got, r, sc), "isosurface-face", "boundary face (direction %d end %d) at %r = %r, volume gives %r" % (fixed, end, prm, got, ref.fl(r)))
    ctx.check(build.snapshot(obj) == before, "extract-modified-input", "extraction modified the volume")


# ------------------------------------------------------------------------------------------------ sweeping
@st.composite
def _sweep_cases(draw, tier):
    d = draw(gen.spline(kinds=("curve", "surface"), dims=(3,), max_p=3, max_extra=3, different=True, distinct=True))
    return {"defn": d, "vec": [draw(st.integers(-32, 32)) / 8.0 for _ in range(3)], "again": draw(st.booleans()),
            "scale_exp": draw(st.sampled_from([0, 0, 0, 0, -30, -30, 20]))}


def check_sweep(case, ctx):
    d = case["defn"]
    vec = case["vec"]
    if not any(vec):
        vec = [0.0, 0.0, 1.0]
    # the model may be given in very small (or large) units: coordinates and sweep vector times an exact power of two
    S = 2.0 ** case.get("scale_exp", 0)
    ctx.label("tiny-or-large-units", S != 1.0)
    obj = build.make(dict(d, P=[[c * S for c in q] for q in d["P"]]))
    _nt(ctx, d)
    ctx.nt(True, "sweep-" + d["kind"])
    _sweep_once(ctx, d, obj, vec, S)
    if case.get("again"):
        # the same object, moved and stretched in place, swept along the same vector once more
        d2 = dict(d)
        d2["P"] = [[c * 2.0 + 0.5 * (i + 1) for i, c in enumerate(q)] for q in d["P"]]
        obj.ctrlpts = [[c * S for c in q] for q in d2["P"]]
        ctx.label("swept-again-after-edit")
        _sweep_once(ctx, d2, obj, vec, S)


def _sweep_once(ctx, d, obj, vec, S=1.0):
    R = build.exact_from(d, obj)          # in the units of the generated definition; the library works in units of S
    before = build.snapshot(obj)
    sw = sweeping.sweep_vector(obj, [v * S for v in vec])
    ctx.check(build.snapshot(obj) == before, "sweep-modified-input", "sweep_vector modified its input")
    pdim = len(d["degree"])
    ctx.check(sw.pdimension == pdim + 1, "sweep-dimension", "swept shape has %d parametric directions" % sw.pdimension)
    degs, szs = build.degrees_of(sw), build.sizes_of(sw)
    ctx.check(sorted(degs) == sorted(d["degree"] + [1]) and sorted(szs) == sorted(d["size"] + [2]), "sweep-definition",
              "swept degrees %r sizes %r from degrees %r sizes %r" % (degs, szs, d["degree"], d["size"]))
    ctx.check(bool(sw.rational) == d["rational"], "sweep-rationality", "swept shape rational=%r" % sw.rational)
    # the new direction: a degree-1 direction with 2 control points whose removal leaves the input's degrees in order
    cands = [k for k in range(pdim + 1) if degs[k] == 1 and szs[k] == 2 and [x for i, x in enumerate(degs) if i != k] == d["degree"]
             and [x for i, x in enumerate(szs) if i != k] == d["size"]]
    ctx.check(bool(cands), "sweep-definition", "no direction of the swept shape is the new linear direction (degrees %r sizes %r)" % (degs, szs))
    lat = shape.obj_lattice(obj, limit=4)
    ok_any, msg = False, ""
    sdom = [sw.domain] if sw.pdimension == 1 else list(sw.domain)
    for k in cands:
        for lo_is_input in (True, False):
            bad = None
            for us in lat:
                r, sc = R.point(us)
                for end, shift in ((0, 0.0 if lo_is_input else 1.0), (1, 1.0 if lo_is_input else 0.0)):
                    prm = [float(x) for x in us]
                    prm.insert(k, float(sdom[k][end]))
                    got = [x / S for x in sw.evaluate_single(tuple(prm))]
                    want = [float(x) + shift * v for x, v in zip(r, vec)]
                    if any(abs(a - b) > 1e-9 * (1 + float(sc) + abs(b)) for a, b in zip(got, want)):
                        bad = "section at new-direction end %d, parameter %r: %r, expected %r" % (end, prm, got, want)
                        break
                if bad:
                    break
            if not bad:
                ok_any = True
                break
            msg = bad
        if ok_any:
            break
    ctx.check(ok_any, "sweep-sections", "the two opposite boundary sections are not the input and its translate by %r: %s" % (vec, msg))


SUBCHECKS = [
    SubCheck("surface", _surf_cases, check_surface, quick=300, thorough=1500,
             rule="non-trivial = nu != nv (always, by construction) with pairwise distinct points; rational and degree classes labelled"),
    SubCheck("volume", _vol_cases, check_volume, quick=150, thorough=800,
             rule="non-trivial = nu, nv, nw pairwise different (by construction)"),
    SubCheck("sweep", _sweep_cases, check_sweep, quick=250, thorough=1200,
             rule="every case sweeps a curve or a surface with distinct points along a non-zero vector"),
]
