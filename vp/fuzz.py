"""Coverage-guided fuzzing driver (atheris / libFuzzer) for a sub-check.

The fuzzer mutates the byte string that feeds the sub-check's Hypothesis strategy (``test.hypothesis.fuzz_one_input``),
with coverage feedback from the instrumented ``geomdl`` package; the semantic oracle is the very same ``check(case, ctx)``
function the Hypothesis tier uses, so a crash-free run with a broken oracle relation still stops the campaign.

usage: python -m vp.fuzz <PID> <subcheck> <runs> <seed> <out.json> <known,slugs|->
The process ends inside libFuzzer (no atexit), so statistics are flushed to <out.json> periodically and on a violation.
exit code 77 = violation found (case written into out.json), other non-zero = libFuzzer / harness problem.
"""
import json
import os
import sys
import tempfile
import time


def main(argv):
    pid, subname, runs, seed, out, known = argv[:6]
    known = [] if known == "-" else known.split(",")
    import atheris
    with atheris.instrument_imports(include=["geomdl"]):
        import geomdl  # noqa: F401
        from vp import core
        mod = core.load_prop(pid)
    from hypothesis import given, settings, HealthCheck, Verbosity
    from vp.core import Violation, Skip, Excluded, Ctx
    from vp import worker
    sc = [s for s in mod.SUBCHECKS if s.name == subname][0]
    stats = {"evaluations": 0, "ok": 0, "skipped": 0, "excluded": 0, "nt": set(), "samples": [], "labels": {}}
    t0 = time.time()

    def flush(violation=None, harness_error=None):
        res = {"property": pid, "subcheck": subname, "engine": "atheris", "runs_requested": int(runs), "seed": int(seed),
               "evaluations": stats["evaluations"], "ok": stats["ok"], "skipped": stats["skipped"], "excluded": stats["excluded"],
               "nt_hashes": sorted(stats["nt"]), "samples": stats["samples"], "labels": stats["labels"],
               "violation": violation, "harness_error": harness_error, "wall_s": round(time.time() - t0, 2)}
        tmp = out + ".tmp"
        with open(tmp, "w") as f:
            json.dump(res, f)
        os.replace(tmp, out)

    def one(case):
        ctx = Ctx(tier="quick", active_known=known)
        stats["evaluations"] += 1
        try:
            worker.run_case(sc, case, ctx)
            stats["ok"] += 1
        except Skip:
            stats["skipped"] += 1
        except Excluded:
            stats["excluded"] += 1
        except Violation as v:
            flush(violation={"tag": v.tag, "msg": v.msg, "details": worker._js(v.details), "case": case})
            os._exit(77)
        except worker.HarnessError as e:
            flush(harness_error=str(e))
            os._exit(78)
        for l in set(ctx.labels):
            stats["labels"][l] = stats["labels"].get(l, 0) + 1
        if ctx.nontrivial:
            h = core.case_hash(case)
            if h not in stats["nt"]:
                stats["nt"].add(h)
                if len(stats["samples"]) < 2:
                    stats["samples"].append(case)
        if stats["evaluations"] % 100 == 0:
            flush()

    @settings(database=None, deadline=None, verbosity=Verbosity.quiet,
              suppress_health_check=list(HealthCheck))
    @given(case=sc.strategy("quick"))
    def t(case):
        one(case)

    def target(data):
        t.hypothesis.fuzz_one_input(data)

    corpus = tempfile.mkdtemp(prefix="fuzz-corpus-", dir=os.path.dirname(out))
    flush()
    atheris.Setup([sys.argv[0], "-runs=%d" % int(runs), "-seed=%d" % (int(seed) % (2 ** 31 - 1) + 1), "-max_len=2048",
                   "-print_final_stats=1", corpus], target)
    try:
        atheris.Fuzz()
    finally:
        flush()


if __name__ == "__main__":
    main(sys.argv[1:])
