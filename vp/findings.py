"""Known findings file (read-only at run time): /verif/known_findings.json

entries: {"status": "known"|"fixed", "property": "Cxx", "slug": str, "subcheck": str,
          "where": call site, "class": text of the class predicate (implemented next to the sub-check
          and consulted through ctx.exclude_if(slug, ...)), "witness": case, "what": text, "commit": (fixed)}
A *known* entry whose witness still fails prints KNOWN-FINDING and excludes exactly its class from the search.
A *fixed* entry suppresses nothing; its witness is kept in corpus/<ID>/ as a must-pass case.
"""
import json
import os

from vp import core


def load(pid=None, status=None):
    fn = os.path.join(core.verif_root(), "known_findings.json")
    if not os.path.exists(fn):
        return []
    with open(fn) as f:
        data = json.load(f)
    out = []
    for e in data.get("findings", []):
        if pid is not None and e.get("property") != pid:
            continue
        if status is not None and e.get("status") != status:
            continue
        out.append(e)
    return out
