"""Definition dict (vp/gen.py) <-> geomdl objects; snapshots; parameter resolution."""
from fractions import Fraction as F

from geomdl import BSpline, NURBS

from vp import ref


def homogeneous(P, W):
    """(x*w,..,w) in floats (exact for the dyadic values generated)."""
    return [[c * w for c in p] + [w] for p, w in zip(P, W)]


def scribble(inputs, knots=True):
    """Overwrite, in place, every list that was handed to the setters while the object was built (the caller re-uses its
    own lists).  ``knots=False`` leaves the knot vector lists alone."""
    def go(x):
        for i, v in enumerate(x):
            if isinstance(v, list):
                go(v)
            else:
                x[i] = v * 0.5 + 7.0
    for name, lst in inputs.items():
        if knots or not name.startswith("kv"):
            go(lst)


def make(d, mode="w", normalize=None, inputs=None, **kwargs):
    """Build the geomdl object for a definition.  mode 'w': set homogeneous points through set_ctrlpts;
    mode 'pw': ctrlpts setter then weights setter (rational only); mode 'wp': weights first, the ctrlpts setter last.
    ``inputs``: a dict that receives the list objects handed to the setters (for build.scribble)."""
    if d.get("as_int"):
        # whole-number coordinates are handed over as Python ints, as in the documentation's examples
        d = dict(d)
        d["P"] = [[int(c) if float(c).is_integer() else c for c in q] for q in d["P"]]
    mod = NURBS if d["rational"] else BSpline
    cls = {"curve": mod.Curve, "surface": mod.Surface, "volume": mod.Volume}[d["kind"]]
    norm = d.get("normalize", True) if normalize is None else normalize
    obj = cls(normalize_kv=norm, **kwargs)
    degs, szs = d["degree"], d["size"]
    inputs = {} if inputs is None else inputs
    combined = d["kind"] != "curve" and len(d["P"]) % 5 == 2          # the documented all-direction setters (degree, knotvector)
    if d["kind"] == "curve":
        obj.degree = degs[0]
    elif combined:
        obj.degree = list(degs)
    elif d["kind"] == "surface":
        obj.degree_u, obj.degree_v = degs
    else:
        obj.degree_u, obj.degree_v, obj.degree_w = degs
    if d["rational"]:
        if mode in ("pw", "pww"):
            if d["kind"] == "curve":
                inputs["P"] = [list(p) for p in d["P"]]
                obj.ctrlpts = inputs["P"]
            else:
                # surfaces/volumes need the sizes: seed with unit weights via set_ctrlpts, then the views
                inputs["Pw"] = homogeneous(d["P"], [1.0] * len(d["P"]))
                obj.set_ctrlpts(inputs["Pw"], *szs)
            if mode == "pww":
                obj.weights = [2.0 + 0.5 * (i % 3) for i in range(len(d["W"]))]      # a first, different set of weights
            inputs["W"] = list(d["W"])
            obj.weights = inputs["W"]
        elif mode == "wp":
            # other points with the final weights first, then the unweighted control points through their setter (last writer)
            obj.set_ctrlpts(homogeneous([[c * 0.5 - 1.0 for c in p] for p in d["P"]], d["W"]), *szs)
            inputs["P"] = [list(p) for p in d["P"]]
            obj.ctrlpts = inputs["P"]
        else:
            inputs["Pw"] = homogeneous(d["P"], d["W"])
            obj.set_ctrlpts(inputs["Pw"], *szs)
    else:
        inputs["P"] = [list(p) for p in d["P"]]
        obj.set_ctrlpts(inputs["P"], *szs)
    if combined:
        inputs["kv0"], inputs["kv1"] = list(d["kv"][0]), list(d["kv"][1])
        if d["kind"] == "volume":
            inputs["kv2"] = list(d["kv"][2])
        kvs_ = [inputs["kv%d" % i] for i in range(len(d["kv"]))]
        obj.knotvector = [tuple(k) for k in kvs_] if d.get("kv_tuple") else kvs_
        return obj
    if d.get("kv_tuple"):
        # knot vectors handed over as tuples (a normalising shape converts whatever sequence it is given; a shape created with
        # normalize_kv=False keeps the tuple, and every operation of the pinned tree works on it as on a list)
        if d["kind"] == "curve":
            obj.knotvector = tuple(d["kv"][0])
        elif d["kind"] == "surface":
            obj.knotvector_u, obj.knotvector_v = tuple(d["kv"][0]), tuple(d["kv"][1])
        else:
            obj.knotvector_u, obj.knotvector_v, obj.knotvector_w = [tuple(k) for k in d["kv"]]
        return obj
    if d["kind"] == "curve":
        inputs["kv0"] = list(d["kv"][0])
        obj.knotvector = inputs["kv0"]
    elif d["kind"] == "surface":
        inputs["kv0"], inputs["kv1"] = list(d["kv"][0]), list(d["kv"][1])
        if inputs["kv1"] == inputs["kv0"]:
            inputs["kv1"] = inputs["kv0"]          # one list for both directions, as a caller who has only one would pass it
        obj.knotvector_u, obj.knotvector_v = inputs["kv0"], inputs["kv1"]
    else:
        inputs["kv0"], inputs["kv1"], inputs["kv2"] = [list(k) for k in d["kv"]]
        if inputs["kv1"] == inputs["kv0"]:
            inputs["kv1"] = inputs["kv0"]
        obj.knotvector_u, obj.knotvector_v, obj.knotvector_w = inputs["kv0"], inputs["kv1"], inputs["kv2"]
    return obj


def tiny_range(d):
    """A generated definition with a very short parameter range (gen.affine class 'tiny').  The binary span search identifies
    every parameter closer than 1e-5 to the end of the domain with the end (an absolute tolerance of the pinned tree), so it is
    only offered for ranges where that is a negligible part of the domain."""
    return bool(d.get("affine")) and any(a[1] < 1e-3 for a in d["affine"])


def pdim_of(obj):
    return obj.pdimension


def kvs_of(obj):
    if obj.pdimension == 1:
        return [list(obj.knotvector)]
    return [list(k) for k in obj.knotvector]


def degrees_of(obj):
    if obj.pdimension == 1:
        return [obj.degree]
    return list(obj.degree)


def sizes_of(obj):
    if obj.pdimension == 1:
        return [obj.ctrlpts_size]
    return list(obj.cpsize)


def stored_points(obj):
    """Homogeneous (rational) or plain stored control points."""
    return [list(p) for p in (obj.ctrlptsw if obj.rational else obj.ctrlpts)]


def snapshot(obj):
    """Definition of the object as stored: used for 'unchanged' and 'equal definition' comparisons."""
    return {"cls": type(obj).__module__ + "." + type(obj).__name__, "rational": bool(obj.rational),
            "degree": degrees_of(obj), "size": sizes_of(obj), "kv": kvs_of(obj), "pts": stored_points(obj)}


def exact(obj):
    """Exact reference spline of the *stored* definition of a geomdl object."""
    return ref.Spline(degrees_of(obj), kvs_of(obj), sizes_of(obj), stored_points(obj), bool(obj.rational))


def exact_from(d, obj):
    """Exact reference from the generated definition, with the knot vectors read back from the object
    (so the library's own normalisation rounding is not counted against it)."""
    return ref.Spline.from_defn(d, kvs=kvs_of(obj))


def resolve_param(p, kv, n, desc, others=()):
    """Turn a parameter descriptor into a float inside the domain [kv[p], kv[n]] of the *stored* knot vector.
    ``others``: knot vectors of the other parametric directions (for the 'other' kind)."""
    a, b = kv[p], kv[n]
    kind = desc[0]
    if kind == "other":
        cand = sorted(set(k for okv in others for k in okv if a < k < b))
        if cand:
            u = cand[desc[1] % len(cand)]
            return u, ("knot" if u in kv else "in")
        kind = "in"
    if kind == "start":
        return a, "start"
    if kind == "end":
        return b, "end"
    if kind == "zero":
        if a < 0.0 < b:
            return 0.0, ("knot" if 0.0 in kv else "in")
        kind = "in"
    if kind == "edge":
        # right next to the start or the end of the domain (strictly inside the first / last non-empty span)
        import math
        eps = desc[4] * max(1.0, abs(b - a))
        if desc[3] > 0:
            u = a + eps if eps else math.nextafter(a, math.inf)
            ok = a < u < min(k for k in kv if k > a)
        else:
            u = b - eps if eps else math.nextafter(b, -math.inf)
            ok = max(k for k in kv if k < b) < u < b
        if ok:
            return u, "in"
        kind = "in"
    if kind == "within":
        inner = sorted(set(k for k in kv[p + 1:n] if a < k < b and abs(k) < 4.0))
        if inner:
            k0 = inner[desc[1] % len(inner)]
            u = k0 + desc[3] * 2.0 ** -25
            if a < u < b and u != k0 and not any(2e-8 < abs(u - k) < 1e-6 for k in kv if k != k0):
                return u, "near"
        kind = "in"
    if kind == "near":
        inner = sorted(set(k for k in kv[p + 1:n] if a < k < b))
        eps = (desc[4] if len(desc) > 4 else 2.0 ** -24) * max(1.0, abs(b - a))
        if inner:
            import math
            k0 = inner[desc[1] % len(inner)]
            u = k0 + desc[3] * eps if eps else math.nextafter(k0, math.inf if desc[3] > 0 else -math.inf)
            if a < u < b and u != k0 and not any(abs(u - k) < eps / 2 for k in kv if k != k0):
                return u, "near"
        kind = "in"
    # non-empty spans
    spans = [j for j in range(p, n) if kv[j] < kv[j + 1]]
    if kind == "decimal":
        j = spans[0] if desc[1] % 2 == 0 else spans[desc[1] % len(spans)]
        u = kv[j] + (kv[j + 1] - kv[j]) * desc[3] / 7000.0
        if kv[j] < u < kv[j + 1]:
            return u, "in"
        kind = "in"
    if kind == "knot":
        inner = sorted(set(k for k in kv[p + 1:n] if a < k < b))
        if inner:
            return inner[desc[1] % len(inner)], "knot"
        kind = "in"
    j = spans[desc[1] % len(spans)]
    u = kv[j] + (kv[j + 1] - kv[j]) * desc[2]
    if not (kv[j] < u < kv[j + 1]):
        u = kv[j]
        return u, ("knot" if j > p else "start")
    return u, "in"


def resolve_params(obj, descs):
    kvs, degs, szs = kvs_of(obj), degrees_of(obj), sizes_of(obj)
    us, kinds = [], []
    for i, (p, kv, n, d) in enumerate(zip(degs, kvs, szs, descs)):
        u, k = resolve_param(p, kv, n, d, others=[o for j, o in enumerate(kvs) if j != i])
        us.append(u)
        kinds.append(k)
    return us, kinds


def call_param(obj, us):
    """Parameter in the form the object's API takes (float for curves, tuple otherwise)."""
    return us[0] if obj.pdimension == 1 else tuple(us)


def has_repeated_interior(d):
    for p, kv, n in zip(d["degree"], d["kv"], d["size"]):
        inner = kv[p + 1:n]
        if len(inner) != len(set(inner)):
            return True
    return False


def varied_weights(d):
    return bool(d["rational"]) and len(set(d["W"])) > 1


def container(cls, objs, form=0):
    """A container of the given shapes, filled in one of the documented ways ("The input can be a single geometry, a list of
    geometry objects or a geometry container object"; "Addition operator, e.g. mcrv1 + mcrv2, also works")."""
    objs = list(objs)
    form = form % 7
    if form == 0:
        return cls(*objs)
    if form == 6:
        # a single list of geometries handed to the constructor; the caller then re-uses its list for something else
        c = cls(objs)
        objs.clear()
        return c
    c = cls()
    if form == 1:
        for o in objs:
            c.add(o)
    elif form == 2:
        c.add(objs)
    elif form == 3:
        c.add(cls(*objs))
    elif form == 4:
        c = c + cls(*objs)
    else:
        c = cls(cls(*objs[:1]), tuple(objs[1:]))
    return c
