"""Hypothesis strategies. Every strategy yields a JSON-serialisable value; all numbers are dyadic rationals
stored as Python floats/ints (exactly representable), so ``Fraction(x)`` recovers them exactly.
Construction over rejection: no ``filter``/``assume`` in this module.
"""
from hypothesis import strategies as st

WEIGHTS = [0.25, 0.5, 0.75, 1.0, 1.5, 2.0, 3.0, 4.0]


def _repair_mult(vals, p, lo=1, hi=63):
    """Make a sorted integer multiset have every multiplicity <= p by bumping surplus copies to the next
    free slot (deterministic; keeps the list sorted and inside [lo, hi])."""
    vals = sorted(vals)
    out = []
    counts = {}
    for v in vals:
        w = v
        step = 1
        tried = 0
        while counts.get(w, 0) >= p:
            w += step
            if w > hi:
                w = lo
            tried += 1
            if tried > (hi - lo + 2):
                break
        counts[w] = counts.get(w, 0) + 1
        out.append(w)
    return sorted(out)


@st.composite
def interior_knots(draw, p, m, style=None, micro=False):
    """m interior knots on the grid {1..63}/64, each multiplicity <= p.
    micro=True: one copy of a repeated knot may be moved up by 2^-24, which creates a valid, non-empty knot span of
    width 6e-8 (used only by checks that evaluate; knot-editing operations identify knots closer than 1e-7)."""
    if m <= 0:
        return []
    if micro and m >= 2 and p >= 2 and draw(st.integers(0, 3)) == 0:
        base = draw(interior_knots(p, m, "coarse"))
        for i in range(len(base) - 1):
            if base[i] == base[i + 1] and (i + 2 >= len(base) or base[i + 2] > base[i + 1]):
                base[i + 1] = base[i + 1] + 2.0 ** -24
                break
        return base
    style = style or draw(st.sampled_from(["simple", "coarse", "coarse", "any", "full"]))
    if style == "simple":
        pool = 64
    elif style == "coarse":
        pool = draw(st.sampled_from([2, 4, 4, 8]))
    elif style == "full":
        pool = draw(st.sampled_from([2, 4]))
    else:
        pool = draw(st.sampled_from([4, 8, 16, 32, 64]))
    stepsz = 64 // pool
    raw = draw(st.lists(st.integers(1, pool - 1), min_size=m, max_size=m))
    vals = [r * stepsz for r in raw]
    if style == "full" and m >= p:
        # force one knot of full multiplicity p
        v = vals[0]
        vals = [v] * p + vals[p:]
    cap = 1 if style == "simple" else p
    return [v / 64.0 for v in _repair_mult(vals, cap)]


@st.composite
def knot_vector(draw, p, n, unclamped=False, style=None, micro=False):
    """Knot vector on [0,1] for degree p and n control points (length n+p+1)."""
    m = n - p - 1
    inner = draw(interior_knots(p, m, style, micro=micro))
    if not unclamped:
        return [0.0] * (p + 1) + inner + [1.0] * (p + 1)
    # ghost knots: p knots on each side, non-increasing steps on the 1/64 grid, multiplicity at most p+1 at the ends
    left = draw(st.lists(st.integers(0, 16), min_size=p, max_size=p))
    right = draw(st.lists(st.integers(0, 16), min_size=p, max_size=p))
    lo = [0.0]
    for d in left:
        lo.append(lo[-1] - d / 64.0)
    hi = [1.0]
    for d in right:
        hi.append(hi[-1] + d / 64.0)
    return list(reversed(lo)) + inner + hi


def affine_kv(kv, A, B):
    return [A + B * k for k in kv]


@st.composite
def affine(draw, extreme=()):
    """Affine image [A, A + B] of the unit range.  ``extreme``: the additional classes a check opts into ("far", "tiny", "long")."""
    cls = draw(st.sampled_from(["plain"] * 6 + list(extreme) * 2)) if extreme else "plain"
    if cls == "far":
        # a parameter range far from the origin (chainage, time stamps): start of large magnitude, ordinary length
        return [draw(st.sampled_from([1000.0, -1001.0, 2.0 ** 20, 25000000.0, 1700000000.0])), draw(st.sampled_from([0.5, 1.0, 2.0, 64.0]))]
    if cls == "tiny":
        # a very short range: knot spacing of 1e-5 .. 1e-6, refined spacing still above 2e-7 (the library identifies knots closer
        # than 1e-7, so shorter ranges are outside the domain of every knot operation)
        return [draw(st.sampled_from([0.0, -2.0 ** -14, 2.0 ** -10])), 2.0 ** -13]
    if cls == "long":
        return [draw(st.sampled_from([0.0, -4.0])), draw(st.sampled_from([2.0 ** 20, 2.0 ** 30]))]
    A = draw(st.integers(-32, 32)) / 8.0
    B = draw(st.sampled_from([0.5, 1.0, 2.0, 2.5, 3.0, 8.0]))
    return [A, B]


@st.composite
def points(draw, count, dim, distinct=False, lim=64):
    if distinct:
        # distinct by construction: first coordinate carries a unique multiple, rest free
        base = draw(st.permutations(list(range(count))))
        rest = draw(st.lists(st.lists(st.integers(-lim, lim), min_size=dim - 1, max_size=dim - 1),
                             min_size=count, max_size=count))
        return [[(b - count // 2) / 2.0] + [c / 8.0 for c in r] for b, r in zip(base, rest)]
    pts = draw(st.lists(st.lists(st.integers(-lim, lim), min_size=dim, max_size=dim), min_size=count, max_size=count))
    return [[c / 8.0 for c in p] for p in pts]


@st.composite
def weights(draw, count, force=None, spread=False):
    mode = force or draw(st.sampled_from(["varied", "varied", "const", "unit"]))
    if mode == "unit":
        return [1.0] * count
    # all positive weights are valid: once in a while the whole vector is scaled exactly by 2^-30 (weights of order 1e-9,
    # far below the library's 10e-8 tolerances; the shape does not depend on a common factor)
    sc = 2.0 ** draw(st.sampled_from([0, 0, 0, 0, 0, 0, 0, -30]))
    if mode == "const":
        return [draw(st.sampled_from(WEIGHTS)) * sc] * count
    ws = draw(st.lists(st.sampled_from(WEIGHTS), min_size=count, max_size=count))
    if count >= 3 and draw(st.integers(0, 3)) == 0:
        # as in most real models (arcs, revolved shapes): unit weights at the first and last control point, others inside
        ws[0] = ws[-1] = 1.0
    if spread and count >= 2 and sc == 1.0 and draw(st.integers(0, 2)) == 0:
        # weights of widely differing magnitude (exact powers of two apart): 6e-8 ... 1e6 in one shape.  Opt-in: such a shape is so
        # steep in its parameters that only checks which hand their own parameter values to the library can compare points
        ws = [w * 2.0 ** draw(st.sampled_from([-24, -24, 0, 0, 0, 20])) for w in ws]
    return [w * sc for w in ws]


@st.composite
def sizes_degrees(draw, pdim, max_p, max_extra, different=False, min_p=1):
    degs = [draw(st.integers(min_p, max_p)) for _ in range(pdim)]
    if different and pdim > 1:
        # pairwise different control point counts by construction
        extras = draw(st.permutations(list(range(0, max(max_extra, pdim) + 1))))[:pdim]
        szs = [d + 1 + e for d, e in zip(degs, extras)]
        # repair equal sizes
        seen = set()
        for i in range(pdim):
            while szs[i] in seen:
                szs[i] += 1
            seen.add(szs[i])
    else:
        szs = [d + 1 + draw(st.integers(0, max_extra)) for d in degs]
    return degs, szs


@st.composite
def spline(draw, kinds=("curve", "surface", "volume"), rational=None, max_p=4, max_extra=4, dims=None,
           unclamped=False, affine_range=False, normalize=None, different=False, distinct=False, kv_style=None,
           min_p=1, vol_max_p=3, vol_max_extra=2, wmode=None, micro=False, long=False, ranges=(), wspread=False):
    """A full shape definition.
      kind, rational, normalize, degree[], size[], kv[] (as given to the setters), P (flat, library order), W, dim
    long=True: once in a while a curve with 250..258 control points (more than 256 knots), uniform interior knots and
    pseudo-random control points derived from one generated integer.
    """
    kind = draw(st.sampled_from(list(kinds)))
    if long and kind == "curve" and draw(st.integers(0, 19)) == 0:
        p = draw(st.integers(1, 3))
        n = draw(st.sampled_from([250, 252, 253, 254, 255, 256, 258]))          # (sampled: plain integer draws cluster at the lower bound)
        m = n - p - 1
        kv = [0.0] * (p + 1) + [(i + 1) / float(m + 1) for i in range(m)] + [1.0] * (p + 1)
        dim = draw(st.sampled_from(list(dims or (2, 3))))
        x = draw(st.integers(1, 10 ** 6)) * 2654435761 % (2 ** 32)
        P, W = [], []
        for _ in range(n):
            q = []
            for _ in range(dim):
                x = (x * 1103515245 + 12345) % (2 ** 31)
                q.append(((x >> 8) % 129 - 64) / 8.0)
            P.append(q)
            x = (x * 1103515245 + 12345) % (2 ** 31)
            W.append(WEIGHTS[(x >> 8) % len(WEIGHTS)])
        rat = draw(st.booleans()) if rational is None else rational
        norm = True if normalize is None else (draw(st.booleans()) if normalize == "maybe" else normalize)
        return {"kind": "curve", "rational": rat, "normalize": norm, "degree": [p], "size": [n], "kv": [kv],
                "P": P, "W": W if rat else None, "dim": dim, "unclamped": False, "affine": None, "long": True}
    pdim = {"curve": 1, "surface": 2, "volume": 3}[kind]
    if kind == "volume":
        max_p, max_extra = min(max_p, vol_max_p), min(max_extra, vol_max_extra)
    degs, szs = draw(sizes_degrees(pdim, max_p, max_extra, different=different, min_p=min_p))
    twin = pdim >= 2 and not different and draw(st.integers(0, 7)) == 0
    if twin:
        # the first two directions are given the same degree, size and knot vector (values equal in two directions are as
        # valid as any; build.make then hands the very same list object to both setters, as a caller with one list would)
        degs[1], szs[1] = degs[0], szs[0]
    rat = draw(st.booleans()) if rational is None else rational
    uncl = draw(st.booleans()) if unclamped == "maybe" else bool(unclamped)
    kvs = [draw(knot_vector(p, n, unclamped=uncl, style=kv_style, micro=micro)) for p, n in zip(degs, szs)]
    if twin:
        kvs[1] = list(kvs[0])
    norm = True if normalize is None else (draw(st.booleans()) if normalize == "maybe" else normalize)
    aff = None
    if affine_range:
        if affine_range == "maybe":
            if draw(st.booleans()):
                aff = [draw(affine(ranges)) for _ in range(pdim)]
        else:
            aff = [draw(affine(ranges)) for _ in range(pdim)]
    if aff and twin:
        aff[1] = list(aff[0])
    if aff:
        kvs = [affine_kv(kv, a[0], a[1]) for kv, a in zip(kvs, aff)]
    if dims is None:
        dims = (2, 3) if kind == "curve" else (3,)
    dim = draw(st.sampled_from(list(dims)))
    count = 1
    for s in szs:
        count *= s
    P = draw(points(count, dim, distinct=distinct))
    W = draw(weights(count, force=wmode, spread=wspread)) if rat else None
    as_int = draw(st.integers(0, 9)) == 0
    if as_int:
        P = [[c * 8.0 for c in q] for q in P]          # whole numbers, which build.make hands over as ints
    return {"kind": kind, "rational": rat, "normalize": norm, "degree": degs, "size": szs, "kv": kvs,
            "P": P, "W": W, "dim": dim, "unclamped": uncl, "affine": aff, "kv_tuple": draw(st.integers(0, 5)) == 0, "as_int": as_int}


@st.composite
def param_desc(draw):
    """Descriptor of a parameter in one direction, resolved against the built object's own knot vector:
       ["in", span_selector, num/64] strictly inside a non-empty span; ["knot", selector] on an interior knot
       (falls back to 'in' when there is none); ["start"]; ["end"]."""
    k = draw(st.sampled_from(["in", "in", "knot", "knot", "start", "end", "other", "near", "decimal", "within", "zero", "edge"]))
    if k == "edge":
        # 2^-24 (or 2^-36, or one unit in the last place) inside the domain, next to its start or its end
        return ["edge", draw(st.integers(0, 63)), draw(st.integers(1, 63)) / 64.0, draw(st.sampled_from([-1, 1])),
                draw(st.sampled_from([2.0 ** -24, 2.0 ** -24, 2.0 ** -36, 0.0]))]
    if k == "zero":
        # the parameter 0.0 itself when it lies strictly inside the domain (domains of shapes kept in their original range)
        return ["zero", draw(st.integers(0, 63)), draw(st.integers(1, 63)) / 64.0]
    if k == "within":
        # 2^-25 (3e-8) next to an interior knot: closer than the library's knot identification tolerance (10e-8), not identical
        return ["within", draw(st.integers(0, 63)), draw(st.integers(1, 63)) / 64.0, draw(st.sampled_from([-1, 1]))]
    if k == "decimal":
        # not a dyadic rational: (span start) + m/7000 of the span width, preferably in the first span (small values, which the
        # library's 18-decimal knot rounding does not reproduce exactly)
        return ["decimal", draw(st.integers(0, 63)), draw(st.integers(1, 63)) / 64.0, draw(st.integers(1, 120))]
    if k == "near":
        # a parameter 2^-24 (6e-8) below or above an interior knot: a distinct, valid parameter right next to a span boundary
        return ["near", draw(st.integers(0, 63)), draw(st.integers(1, 63)) / 64.0, draw(st.sampled_from([-1, 1])),
                draw(st.sampled_from([2.0 ** -24, 2.0 ** -24, 2.0 ** -36, 0.0]))]      # 0.0 = one unit in the last place
    if k == "other":
        # a knot value of ANOTHER parametric direction (exposes u/v mix-ups); falls back to 'in' for curves
        return ["other", draw(st.integers(0, 63)), draw(st.integers(1, 63)) / 64.0]
    if k == "in":
        return ["in", draw(st.integers(0, 63)), draw(st.integers(1, 63)) / 64.0]
    if k == "knot":
        return ["knot", draw(st.integers(0, 63)), draw(st.integers(1, 63)) / 64.0]
    return [k]


def params(pdim):
    return st.lists(param_desc(), min_size=pdim, max_size=pdim)
