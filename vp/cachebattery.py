"""Runs a battery of memoised-helper operations in a fresh interpreter (GEOMDL_CACHE_SIZE is read at import time)
and prints the results as JSON with floats in repr form.  stdin: JSON battery; stdout: JSON results.
Used by C17 (configuration independence of the cache size)."""
import json
import sys


def main():
    battery = json.load(sys.stdin)
    out = []
    try:
        from geomdl import helpers, linalg
    except Exception as e:  # the package cannot even be imported under this configuration
        print(json.dumps({"import_error": "%s: %s" % (type(e).__name__, e)}))
        return
    for op in battery:
        k = op["op"]
        try:
            if k == "insert":
                p, kv, cp, u, r = op["p"], op["kv"], op["cp"], op["u"], op["r"]
                span = helpers.find_span_linear(p, kv, len(cp), u)
                s = helpers.find_multiplicity(u, kv)
                new = helpers.knot_insertion(p, kv, cp, u, num=r, s=s, span=span)
                kv2 = helpers.knot_insertion_kv(kv, u, span, r)
                res = [new, kv2]
                if op.get("remove"):
                    span2 = helpers.find_span_linear(p, kv2, len(new), u)
                    s2 = helpers.find_multiplicity(u, kv2)
                    back = helpers.knot_removal(p, kv2, new, u, num=op["remove"], s=s2, span=span2)
                    res.append(back)
            elif k == "refine":
                new, kv2 = helpers.knot_refinement(op["p"], op["kv"], op["cp"], density=op["density"])
                res = [new, kv2]
            elif k == "binomial":
                res = [linalg.binomial_coefficient(a, b) for a, b in op["pairs"]]
            elif k == "elevate":
                res = helpers.degree_elevation(op["p"], op["cp"], num=op["t"])
            elif k == "matrix":
                A = op["A"]
                mp, pm, sg = linalg.matrix_pivot(A, sign=True)
                res = [mp, pm, sg, linalg.matrix_determinant(A), linalg.matrix_identity(len(A))]
                try:
                    res.append(linalg.matrix_inverse(A))
                except ZeroDivisionError:
                    res.append("ZeroDivisionError")
            else:
                res = None
        except Exception as e:
            res = "EXC %s: %s" % (type(e).__name__, e)
        out.append(res)
    print(json.dumps({"results": out}))


if __name__ == "__main__":
    main()
