"""Runner: ./check <ID> quick|thorough  |  ./check <ID> --replay <file>

Exit 0: property held on everything explored (KNOWN-FINDING lines allowed).
Exit 1: at least one "VIOLATION property=<ID> replay=<path>" line.
Exit 2: harness error (never reported as VIOLATION).
"""
import json
import os
import shutil
import subprocess
import sys
import tempfile
import time

from vp import core

NCPU = int(os.environ.get("VERIF_JOBS", "16"))


def _write_replay(pid, subname, v):
    rdir = os.path.join(core.verif_root(), "replays")
    os.makedirs(rdir, exist_ok=True)
    h = core.case_hash([subname, v.get("tag"), v["case"]])
    path = os.path.join(rdir, "%s-%s-%s.json" % (pid, subname, h))
    with open(path, "w") as f:
        d = {"property": pid, "subcheck": subname, "tag": v.get("tag"), "msg": v.get("msg"),
             "details": v.get("details"), "case": v["case"]}
        if v.get("history"):
            d["history"] = v["history"]
        json.dump(d, f, indent=1)
    return path


def replay(pid, path):
    from vp import worker
    with open(path) as f:
        d = json.load(f)
    sub = d["subcheck"]
    try:
        pre_known = []
        from vp import findings
        for kf in findings.load(pid, status="known"):
            if worker.replay_case(pid, kf["subcheck"], kf["witness"]) is not None:
                pre_known.append(kf["slug"])
        v = worker.replay_case(pid, sub, d["case"], known=pre_known, history=d.get("history"))
    except worker.HarnessError as e:
        print("HARNESS-ERROR property=%s %s" % (pid, e))
        return 2
    if v is None:
        print("replay %s: property held on this case" % path)
        return 0
    print("replay %s: %s: %s" % (path, v["tag"], v["msg"]))
    print("VIOLATION property=%s replay=%s" % (pid, os.path.abspath(path)))
    return 1


def main(argv):
    if len(argv) < 2:
        print(__doc__)
        return 2
    pid = argv[0]
    if argv[1] == "--replay":
        return replay(pid, argv[2])
    tier = argv[1]
    if tier not in ("quick", "thorough"):
        print(__doc__)
        return 2
    only = argv[2].split(",") if len(argv) > 2 else None
    seed = int(os.environ.get("VERIF_SEED", "0") or 0)
    t0 = time.time()
    try:
        mod = core.load_prop(pid)
    except Exception as e:
        import traceback
        print("HARNESS-ERROR property=%s cannot import check module: %s\n%s" % (pid, e, traceback.format_exc()))
        return 2
    wdir = os.environ.get("VERIF_WORK") or os.path.join(core.verif_root(), ".work")
    os.makedirs(wdir, exist_ok=True)
    work = tempfile.mkdtemp(prefix="vp-%s-" % pid, dir=wdir)
    env = dict(os.environ)
    py = sys.executable
    harness_errors = []
    violations = []  # (subcheck, violation dict)
    try:
        # ---- phase 0: corpus + known-finding witnesses --------------------------------
        pre_out = os.path.join(work, "pre.json")
        p = subprocess.run([py, "-B", "-m", "vp.worker", pid, "pre", tier, pre_out], env=env,
                           stdout=subprocess.PIPE, stderr=subprocess.STDOUT, text=True)
        if p.returncode != 0 or not os.path.exists(pre_out):
            print("HARNESS-ERROR property=%s pre-phase failed (rc=%s)\n%s" % (pid, p.returncode, p.stdout[-4000:]))
            return 2
        with open(pre_out) as f:
            pre = json.load(f)
        if pre.get("harness_error"):
            print("HARNESS-ERROR property=%s pre-phase: %s" % (pid, pre["harness_error"]))
            return 2
        active = [k["slug"] for k in pre["known_active"]]
        for k in pre["known_active"]:
            print("KNOWN-FINDING: property=%s %s [%s]" % (pid, k["what"], k["slug"]))
        corpus_n = len(pre["corpus"])
        for c in pre["corpus"]:
            if c["violation"] is not None:
                violations.append((c["subcheck"], c["violation"], "corpus/%s/%s" % (pid, c["file"])))

        # ---- phase 1: generated search, one OS process per (sub-check, shard) ----------
        if only and not any(sc.name in only for sc in mod.SUBCHECKS):
            print("HARNESS-ERROR property=%s no sub-check named %s (have: %s)" % (pid, ",".join(only), ",".join(sc.name for sc in mod.SUBCHECKS)))
            return 2
        jobs = []
        for sc in mod.SUBCHECKS:
            if only and sc.name not in only:
                continue
            ns = sc.shards_quick if tier == "quick" else sc.shards_thorough
            if sc.enumerate_cases is not None:
                ns = max(ns, 1)
            for sh in range(ns):
                out = os.path.join(work, "%s-%d.json" % (sc.name, sh))
                cmd = [py, "-B", "-m", "vp.worker", pid, "search", sc.name, tier, str(sh), str(ns), str(seed), out,
                       ",".join(active) if active else "-"]
                jobs.append({"sc": sc, "shard": sh, "out": out, "cmd": cmd, "proc": None, "log": out + ".log"})
        # ---- optional coverage-guided tier (thorough only): atheris/libFuzzer drives the same sub-check strategies
        fuzz_jobs = []
        fuzz_cfg = getattr(mod, "FUZZ", None)
        if tier == "thorough" and fuzz_cfg and not os.environ.get("VERIF_NO_FUZZ"):
            try:
                import atheris  # noqa: F401
                have_atheris = True
            except Exception:
                have_atheris = False
            if have_atheris:
                for subname, runs, nproc in fuzz_cfg:
                    if only and subname not in only:
                        continue
                    for k in range(nproc):
                        out = os.path.join(work, "fuzz-%s-%d.json" % (subname, k))
                        cmd = [py, "-B", "-m", "vp.fuzz", pid, subname, str(runs), str(core.derive_seed(seed, "fuzz/%s/%s" % (pid, subname), k)), out,
                               ",".join(active) if active else "-"]
                        j = {"sc": None, "fuzz": subname, "shard": k, "out": out, "cmd": cmd, "proc": None, "log": out + ".log"}
                        fuzz_jobs.append(j)
            else:
                print("note: atheris not importable; coverage-guided tier skipped (inconclusive, not a violation)")
        pending = list(jobs) + list(fuzz_jobs)
        running = []
        while pending or running:
            while pending and len(running) < NCPU:
                j = pending.pop(0)
                j["logf"] = open(j["log"], "w")
                j["proc"] = subprocess.Popen(j["cmd"], env=env, stdout=j["logf"], stderr=subprocess.STDOUT)
                running.append(j)
            time.sleep(0.05)
            for j in list(running):
                if j["proc"].poll() is not None:
                    running.remove(j)
                    j["logf"].close()

        # ---- aggregate -------------------------------------------------------------
        per_sub = {}
        for j in jobs:
            name = j["sc"].name
            agg = per_sub.setdefault(name, {"evaluations": 0, "ok": 0, "nt": set(), "labels": {}, "skipped": {},
                                            "excluded": {}, "samples": [], "shards": 0, "budget_skipped": 0,
                                            "exhaustive": False, "rule": j["sc"].rule})
            if j["proc"].returncode != 0 or not os.path.exists(j["out"]):
                with open(j["log"]) as f:
                    harness_errors.append("%s shard %d: worker exit %s\n%s" % (name, j["shard"], j["proc"].returncode,
                                                                             f.read()[-4000:]))
                continue
            with open(j["out"]) as f:
                r = json.load(f)
            agg["shards"] += 1
            agg["evaluations"] += r["evaluations"]
            agg["ok"] += r["ok"]
            agg["nt"].update(r["nt_hashes"])
            agg["budget_skipped"] += r["budget_skipped"]
            agg["exhaustive"] = agg["exhaustive"] or r["exhaustive"]
            for k in ("labels", "skipped", "excluded"):
                for a, b in r[k].items():
                    agg[k][a] = agg[k].get(a, 0) + b
            if len(agg["samples"]) < 2:
                agg["samples"].extend(r["samples"][:2 - len(agg["samples"])])
            if r["harness_error"]:
                harness_errors.append("%s shard %d: %s" % (name, j["shard"], r["harness_error"]))
            for v in r["violations"]:
                violations.append((name, v, None))

        # ---- aggregate the coverage-guided tier
        fuzz_sum = {}
        for j in fuzz_jobs:
            name = j["fuzz"]
            fs = fuzz_sum.setdefault(name, {"evaluations": 0, "nt": set(), "processes": 0, "libfuzzer_runs": 0, "coverage_edges": 0, "samples": []})
            rc = j["proc"].returncode
            try:
                with open(j["out"]) as f:
                    r = json.load(f)
            except Exception:
                r = None
            with open(j["log"]) as f:
                logtxt = f.read()
            if r is None or rc not in (0, 77):
                harness_errors.append("fuzz %s #%d: exit %s\n%s" % (name, j["shard"], rc, logtxt[-1500:]))
                continue
            fs["processes"] += 1
            fs["evaluations"] += r["evaluations"]
            fs["nt"].update(r["nt_hashes"])
            if len(fs["samples"]) < 1:
                fs["samples"].extend(r["samples"][:1])
            import re as _re
            m = _re.findall(r"stat::number_of_executed_units:\s+(\d+)", logtxt)
            if m:
                fs["libfuzzer_runs"] += int(m[-1])
            m = _re.findall(r"cov: (\d+)", logtxt)
            if m:
                fs["coverage_edges"] = max(fs["coverage_edges"], int(m[-1]))
            if r.get("harness_error"):
                harness_errors.append("fuzz %s #%d: %s" % (name, j["shard"], r["harness_error"]))
            if r.get("violation"):
                violations.append((name, r["violation"], "atheris"))

        # ---- report ---------------------------------------------------------------
        seen = set()
        vio_lines = []
        for name, v, src in violations:
            key = (name, v.get("tag"))
            if key in seen:
                continue
            seen.add(key)
            path = _write_replay(pid, name, v)
            print("violation in %s: %s: %s%s" % (name, v.get("tag"), (v.get("msg") or "")[:600],
                                                 (" (from %s)" % src) if src else ""))
            vio_lines.append("VIOLATION property=%s replay=%s" % (pid, path))
        total_eval = sum(a["evaluations"] for a in per_sub.values()) + corpus_n + sum(f["evaluations"] for f in fuzz_sum.values())
        all_nt = set()
        for name, a in per_sub.items():
            all_nt.update(name + ":" + h for h in a["nt"])
        for name, f in fuzz_sum.items():
            all_nt.update(name + ":" + h for h in f["nt"])
        samples = []
        for name, a in per_sub.items():
            for s in a["samples"][:1]:
                samples.append({"subcheck": name, "case": s})
        rules = "; ".join("%s: %s" % (n, a["rule"]) for n, a in per_sub.items() if a["rule"])
        excluded_total = {}
        for a in per_sub.values():
            for k, c in a["excluded"].items():
                excluded_total[k] = excluded_total.get(k, 0) + c
        ev = {
            "property_id": pid, "tier": tier, "seed": seed, "level": "exploration",
            "coverage": {
                "evaluations": total_eval,
                "distinct_nontrivial": len(all_nt),
                "rule": (getattr(mod, "RULE", "") + " Distinct = distinct canonical-JSON hash of the generated case. "
                         "Per sub-check rules: " + rules)[:6000],
                "samples": samples[:12],
                "exhaustive": bool(per_sub) and all(a["exhaustive"] for a in per_sub.values()),
                "corpus_replayed": corpus_n,
                "excluded_known": excluded_total,
                "known_findings_active": active,
                "coverage_guided": {n: {"engine": "atheris (libFuzzer) driving the sub-check's Hypothesis strategy", "processes": f["processes"],
                                        "libfuzzer_runs": f["libfuzzer_runs"], "cases_decoded_and_checked": f["evaluations"],
                                        "distinct_nontrivial": len(f["nt"]), "coverage_edges": f["coverage_edges"],
                                        "sample": f["samples"][:1]} for n, f in fuzz_sum.items()},
                "per_subcheck": {n: {"evaluations": a["evaluations"], "held": a["ok"],
                                     "distinct_nontrivial": len(a["nt"]), "shards": a["shards"],
                                     "skipped": a["skipped"], "excluded_known": a["excluded"],
                                     "budget_skipped": a["budget_skipped"], "exhaustive": a["exhaustive"],
                                     "labels": dict(sorted(a["labels"].items()))} for n, a in per_sub.items()},
            },
            "assumptions": list(getattr(mod, "ASSUMPTIONS", [])) + [
                "exact rational reference model vp/ref.py, Python fractions, Hypothesis 6.168 generators",
                "geomdl imported fresh from %s working tree" % core.repo_root()],
            "wall_s": round(time.time() - t0, 2),
            "violations": len(vio_lines),
        }
        if not only and not os.environ.get("VERIF_NO_EVIDENCE"):
            edir = os.path.join(core.verif_root(), "evidence")
            os.makedirs(edir, exist_ok=True)
            with open(os.path.join(edir, pid + ".json"), "w") as f:
                json.dump(ev, f, indent=1, sort_keys=True)
        print("%s %s seed=%d: %d cases (%d distinct non-trivial) in %d sub-checks, %.1fs, %d violation(s), %d harness error(s)"
              % (pid, tier, seed, total_eval, len(all_nt), len(per_sub), time.time() - t0, len(vio_lines),
                 len(harness_errors)))
        for n, a in per_sub.items():
            print("  %-28s cases=%-7d nontrivial=%-7d skipped=%-5d excluded=%d" % (
                n, a["evaluations"], len(a["nt"]), sum(a["skipped"].values()), sum(a["excluded"].values())))
        for h in harness_errors:
            print("HARNESS-ERROR property=%s %s" % (pid, h))
        for l in vio_lines:
            print(l)
        if vio_lines:
            return 1
        if harness_errors:
            return 2
        return 0
    finally:
        shutil.rmtree(work, ignore_errors=True)


if __name__ == "__main__":
    sys.exit(main(sys.argv[1:]))
