#!/bin/sh
# Offline setup: make sure hypothesis (and numpy) import under /venv; install from the wheelhouse if not.
HERE="$(cd "$(dirname "$0")" && pwd)"
PY="${VERIF_PY:-/venv/bin/python}"
WH=/opt/veriftools/wheels
mkdir -p "$HERE/.deps" "$HERE/evidence" "$HERE/replays"
if ! PYTHONPATH="$HERE/.deps" "$PY" -c "import hypothesis" 2>/dev/null; then
  "$PY" -m pip install --no-index --find-links "$WH" --target "$HERE/.deps" hypothesis || exit 1
fi
if ! PYTHONPATH="$HERE/.deps" "$PY" -c "import numpy" 2>/dev/null; then
  "$PY" -m pip install --no-index --find-links "$WH" --target "$HERE/.deps" numpy || echo "numpy unavailable: numpy cross-checks are skipped"
fi
if ! PYTHONPATH="$HERE/.deps" "$PY" -c "import atheris" 2>/dev/null; then
  "$PY" -m pip install --no-index --find-links "$WH" --target "$HERE/.deps" atheris >/dev/null 2>&1 || echo "atheris unavailable: fuzz tier is skipped"
fi
PYTHONPATH="/repo:$HERE:$HERE/.deps" "$PY" -B -c "import hypothesis, geomdl; print('setup ok: hypothesis', hypothesis.__version__, 'geomdl', geomdl.__version__)"
